#!/bin/bash
# usage: tools/run_all.sh [quick|thorough] [ids...]   - runs the checks sequentially against /repo and prints one line each
tier=${1:-quick}; shift
ids=${*:-C01 C02 C03 C04 C05 C06 C07 C08 C09 C10 C11 C12 C13 C14 C15 C16 C17 C18 C19 C20}
cd /verif
for i in $ids; do
  s=$(date +%s)
  out=$(./check $i --tier $tier 2>&1); code=$?
  echo "$i exit=$code secs=$(( $(date +%s) - s )) :: $(echo "$out" | tail -1 | cut -c1-160)"
  if [ $code -ne 0 ]; then echo "$out" | grep -E "^(VIOLATION|  ->|MACHINERY|KNOWN)" | head -5 | cut -c1-300; fi
done
