#!/bin/bash
# usage: tools/mutant_run.sh <patch-file> <check id> [<check id> ...]
# Applies the patch to a scratch worktree of /repo (outside /repo and /verif), runs the quick
# checks against it through VERIF_REPO, prints the verdict lines and removes the worktree.
set -u
patch=$(realpath "$1"); shift
wt=$(mktemp -d /tmp/verif_mut_XXXXXX)
rmdir "$wt"
git -C /repo worktree add --detach -q "$wt" HEAD || exit 2
trap 'git -C /repo worktree remove --force "$wt" >/dev/null 2>&1; rm -rf "$wt"' EXIT
if ! git -C "$wt" apply "$patch"; then echo "PATCH-DOES-NOT-APPLY $patch"; exit 2; fi
rc=0
for id in "$@"; do
  out=$(cd /verif && VERIF_REPO="$wt" VERIF_EVIDENCE_DIR="$wt/.evidence" ./check "$id" --tier "${TIER:-quick}" 2>&1)
  code=$?
  echo "== $id exit=$code $(echo "$out" | grep -c '^VIOLATION') violation line(s)"
  echo "$out" | grep -E '^(VIOLATION|KNOWN-FINDING|  ->|MACHINERY)' | head -${LINES_MAX:-6}
  [ $code -eq 1 ] || rc=1
done
exit $rc
