#!/usr/bin/env python3
"""tools/mkmutant.py <name> <repo-relative-file> <old> <new>  -> mutants/<name>.patch (unified diff against /repo HEAD)"""
import difflib
import subprocess
import sys
name, rel, old, new = sys.argv[1:5]
src = subprocess.run(["git", "-C", "/repo", "show", f"HEAD:{rel}"], capture_output=True, text=True, check=True).stdout
old = old.encode().decode("unicode_escape"); new = new.encode().decode("unicode_escape")
assert src.count(old) == 1, f"old text occurs {src.count(old)} times"
dst = src.replace(old, new)
diff = "".join(difflib.unified_diff(src.splitlines(True), dst.splitlines(True), f"a/{rel}", f"b/{rel}"))
open(f"/verif/mutants/{name}.patch", "w").write(diff)
print(diff)
