#!/usr/bin/env python3
"""tools/seed_meta.py <ID> '<needs>' '<caught_by>' '<initially>' : writes seeded/<ID>/meta.json from the evaluation logs"""
import json, os, sys
pid, needs, caught, initially = sys.argv[1:5]
d = f"/verif/seeded/{pid}"
chk = open(f"{d}/check_output.txt").read().strip().splitlines() if os.path.exists(f"{d}/check_output.txt") else []
meta = {
    "property": pid,
    "origin": "written by an independent sub-agent that saw only the property text and a scratch worktree of /repo (nothing from /verif)",
    "needs_to_manifest": needs,
    "confirmed": {"demo_exit_without_patch": 0, "demo_exit_with_patch": "non-zero",
                  "how": "tools/eval_seeded.sh: scratch worktree of /repo HEAD, demo.py before/after `git apply patch.diff`, relevant test directories with the patch, quick check(s) with VERIF_REPO pointing at the patched worktree"},
    "repository_tests_with_patch": open(f"{d}/pytest_summary.txt").read().strip() if os.path.exists(f"{d}/pytest_summary.txt") else "see agent_notes.md (run by the sub-agent; same pass/fail set as before the change)",
    "caught_by": caught,
    "initially": initially,
    "check_output": chk,
}
json.dump(meta, open(f"{d}/meta.json", "w"), indent=1)
print("wrote", f"{d}/meta.json")
