#!/bin/bash
# usage: tools/eval_seeded.sh <PROPERTY-ID> <dir with patch.diff demo.py notes.md> [extra check ids...]
# Confirms a sub-agent written change in a scratch worktree of /repo (outside /repo and /verif):
#   demo.py exits 0 without the patch and non-zero with it; the relevant repository tests still pass with it;
#   then runs our quick check(s) against the patched tree.  Copies the artefacts to /verif/seeded/<ID>/.
set -u
id=$1; src=$(realpath "$2"); shift 2; extra="$*"
out=/verif/seeded/${SEED_DIR:-$id}; mkdir -p "$out"
cp "$src/patch.diff" "$src/demo.py" "$out/" 2>/dev/null; cp "$src/notes.md" "$out/agent_notes.md" 2>/dev/null
wt=$(mktemp -d /tmp/verif_seed_XXXXXX); rmdir "$wt"
git -C /repo worktree add --detach -q "$wt" HEAD || exit 2
trap 'git -C /repo worktree remove --force "$wt" >/dev/null 2>&1; rm -rf "$wt"' EXIT
run_demo() { (cd "$wt" && PYTHONPATH="$wt" timeout 900 /venv/bin/python "$out/demo.py" >"$out/$1.log" 2>&1); echo $?; }
d0=$(run_demo demo_without_patch)
if ! git -C "$wt" apply "$out/patch.diff"; then echo "RESULT $id patch does not apply"; exit 2; fi
d1=$(run_demo demo_with_patch)
files=$(git -C "$wt" diff --name-only | tr '\n' ' ')
# relevant test directories
tests=""
for f in $files; do
  case $f in
    fairlearn/metrics/*) tests="$tests test/unit/metrics";;
    fairlearn/reductions/_moments/*) tests="$tests test/unit/reductions/moments test/unit/reductions/exponentiated_gradient/test_exponentiatedgradient_smoke.py test/unit/reductions/grid_search";;
    fairlearn/reductions/_grid_search/*) tests="$tests test/unit/reductions/grid_search test/unit/reductions/test_smoke.py";;
    fairlearn/reductions/_exponentiated_gradient/*) tests="$tests test/unit/reductions/exponentiated_gradient test/unit/reductions/test_smoke.py";;
    fairlearn/reductions/*) tests="$tests test/unit/reductions";;
    fairlearn/postprocessing/*) tests="$tests test/unit/postprocessing";;
    fairlearn/preprocessing/*) tests="$tests test/unit/preprocessing";;
    fairlearn/adversarial/*) tests="$tests test/unit/adversarial";;
    fairlearn/utils/*) tests="$tests test/unit/utils test/unit/reductions/moments test/unit/reductions/grid_search test/unit/postprocessing test/unit/metrics";;
  esac
done
tests=$(echo $tests | tr ' ' '\n' | sort -u | tr '\n' ' ')
tsum="(not run)"
if [ -n "$tests" ] && [ "${SKIP_TESTS:-0}" != 1 ]; then
  tsum=$(cd "$wt" && PYTHONPATH="$wt" env -u FAIRLEARN_VERIF_TRACE timeout 3000 /venv/bin/python -m pytest -q -p no:cacheprovider --continue-on-collection-errors $tests 2>&1 | tail -1)
fi
res=""
for c in $id $extra; do
  o=$(cd /verif && VERIF_REPO="$wt" VERIF_EVIDENCE_DIR="$wt/.evidence" ./check "$c" --tier quick 2>&1); code=$?
  first=$(echo "$o" | grep -m1 -- '  ->' | cut -c1-300)
  res="$res $c:exit=$code"
  echo "$c exit=$code :: $first" >> "$out/check_output.txt.tmp"
done
mv "$out/check_output.txt.tmp" "$out/check_output.txt" 2>/dev/null
echo "$tsum" > "$out/pytest_summary.txt"; echo "RESULT $id demo_without=$d0 demo_with=$d1 files=[$files] tests=[$tests] pytest=[$tsum] checks=[$res]"
