------------------------------ MODULE Backend -------------------------------
(* Extension beyond the listed properties: which engine the adversarial estimators select        *)
(* (_AdversarialFairness._validate_backend) from the `backend` argument, the kinds of the          *)
(* predictor / adversary models and the installed libraries.                                       *)
(*   an engine class given as backend              -> used as given                                *)
(*   "torch" / "auto", torch installed             -> PytorchEngine iff both models are lists or   *)
(*                                                    torch modules; "torch" otherwise REJECTS     *)
(*   "torch", torch missing                        -> RuntimeError (import)                        *)
(*   then the same for "tensorflow" / "auto" with keras models -> TensorflowEngine                 *)
(*   unknown backend string                        -> ValueError (backend)                         *)
(*   nothing installed                             -> RuntimeError (import)                        *)
(*   otherwise                                     -> ValueError (models do not fit what is there) *)
EXTENDS Integers, FiniteSets, TLC, Json

CONSTANTS Emit

Backends == {"auto", "torch", "tensorflow", "bogus", "engine"}
Kinds == {"list", "torch", "keras", "other"}
VARIABLES backend, torchI, tfI, pk, ak
vars == <<backend, torchI, tfI, pk, ak>>
Init == /\ backend \in Backends /\ torchI \in BOOLEAN /\ tfI \in BOOLEAN /\ pk \in Kinds /\ ak \in Kinds
        /\ ("torch" \in {pk, ak} => torchI) /\ ("keras" \in {pk, ak} => tfI)       \* a model object of a library that is not installed cannot exist
Next == UNCHANGED vars
Spec == Init /\ [][Next]_vars

TorchOK == pk \in {"list", "torch"} /\ ak \in {"list", "torch"}
TfOK == pk \in {"list", "keras"} /\ ak \in {"list", "keras"}
Outcome ==
   IF backend = "engine" THEN "given"
   ELSE IF backend \in {"torch", "auto"} /\ torchI /\ TorchOK THEN "PytorchEngine"
   ELSE IF backend = "torch" /\ torchI THEN "ValueError_models"
   ELSE IF backend = "torch" THEN "RuntimeError_import"
   ELSE IF backend \in {"tensorflow", "auto"} /\ tfI /\ TfOK THEN "TensorflowEngine"
   ELSE IF backend = "tensorflow" /\ tfI THEN "ValueError_models"
   ELSE IF backend = "tensorflow" THEN "RuntimeError_import"
   ELSE IF backend = "bogus" THEN "ValueError_backend"
   ELSE IF ~(torchI \/ tfI) THEN "RuntimeError_import"
   ELSE "ValueError_models"

\* ---- laws
AutoPrefersTorch == (backend = "auto" /\ torchI /\ pk = "list" /\ ak = "list") => Outcome = "PytorchEngine"
ListsWorkWithAnythingInstalled == (backend = "auto" /\ pk = "list" /\ ak = "list" /\ (torchI \/ tfI)) => Outcome \in {"PytorchEngine", "TensorflowEngine"}
ExplicitNeverFallsBack == /\ backend = "torch" => Outcome # "TensorflowEngine"
                          /\ backend = "tensorflow" => Outcome # "PytorchEngine"
EngineNeedsItsLibrary == /\ Outcome = "PytorchEngine" => torchI
                         /\ Outcome = "TensorflowEngine" => tfI
MixedModelsRejected == ({pk, ak} = {"torch", "keras"}) => Outcome \in {"given", "ValueError_models", "ValueError_backend"}

Obs == [backend |-> backend, torch_installed |-> torchI, tf_installed |-> tfI, pk |-> pk, ak |-> ak, outcome |-> Outcome]
EmitInv == Emit => PrintT(ToJson(Obs))
=============================================================================
