------------------------------- MODULE Grid -------------------------------
(* GridSearch's multiplier grid (C09): transcription of _GridGenerator (integer L1 lattice,   *)
(* search for the scaling parameter n_units, truncation to grid_size points), the map from     *)
(* basis coefficients to multiplier vectors, and the trade-off selection rule.                 *)
(*   dim    number of basis directions = |events| * (|groups| - 1)   (|groups| for loss moments)*)
(*   neg[d] whether coefficient d may be negative (parity moments: yes; loss moments: no)       *)
(*   force  the L1 norm of every lattice point is forced to n_units (objective in the span:     *)
(*          BoundedGroupLoss); requires dim >= 2, otherwise the lattice has a single point for  *)
(*          every n_units and the search below does not terminate (recorded in DESIGN 7)        *)
EXTENDS Integers, Sequences, FiniteSets, TLC, Json, SequencesExt

CONSTANTS MaxDim, MaxSize, MinSize, Emit

Abs(x) == IF x < 0 THEN -x ELSE x
\* accumulate_integer_grid(index, max_val): sequence (generation order) of suffixes entry[index..dim]
RECURSIVE Acc(_, _, _, _, _)
Acc(index, maxv, dim, neg, force) ==
  IF index = dim + 1 THEN << <<>> >>
  ELSE LET vals == IF index = dim /\ force
                   THEN (IF neg[index] /\ maxv > 0 THEN <<-maxv, maxv>> ELSE <<maxv>>)
                   ELSE LET lo == IF neg[index] THEN -maxv ELSE 0 IN [k \in 1..(maxv - lo + 1) |-> lo + k - 1]
           RECURSIVE Cat(_)
           Cat(k) == IF k = 0 THEN <<>>
                     ELSE LET sub == Acc(index + 1, maxv - Abs(vals[k]), dim, neg, force)     \* LET: evaluated once
                          IN Cat(k - 1) \o [j \in 1..Len(sub) |-> <<vals[k]>> \o sub[j]]
       IN Cat(Len(vals))
IntGrid(nu, dim, neg, force) == Acc(1, nu, dim, neg, force)
\* the code starts from a conservative lower bound and increases n_units until the lattice is large enough;
\* the result of that loop is the least k with at least `size` points (the lattice size is monotone in k)
RECURSIVE NUnits(_, _, _, _, _)
NUnits(k, size, dim, neg, force) == IF Len(IntGrid(k, dim, neg, force)) >= size THEN k ELSE NUnits(k + 1, size, dim, neg, force)
Grid(size, dim, neg, force) == LET k == NUnits(0, size, dim, neg, force)
                                   g == IntGrid(k, dim, neg, force)
                               IN [nu |-> k, pts |-> SubSeq(g, 1, size)]
L1(p) == LET RECURSIVE Sm(_)
             Sm(i) == IF i = 0 THEN 0 ELSE Sm(i - 1) + Abs(p[i])
         IN Sm(Len(p))

\* coefficient vector -> multiplier vector (+ part, - part) on the basis directions that are present
Pos(x) == IF x > 0 THEN x ELSE 0
Lambda(p, present) == [d \in 1..Len(p) |-> IF present[d] THEN <<Pos(p[d]), Pos(-p[d])>> ELSE <<0, 0>>]
LambdaL1(p, present) == LET RECURSIVE Sm(_)
                            Sm(i) == IF i = 0 THEN 0 ELSE Sm(i - 1) + Lambda(p, present)[i][1] + Lambda(p, present)[i][2]
                        IN Sm(Len(p))

VARIABLES dim, neg, force, size
vars == <<dim, neg, force, size>>
Init == /\ dim \in 1..MaxDim /\ force \in BOOLEAN /\ size \in MinSize..MaxSize
        /\ neg \in [1..dim -> BOOLEAN]
        /\ force => (dim >= 2 /\ \A d \in 1..dim : ~neg[d])      \* loss moments: one column per group, no negatives
        /\ ~force => (\A d \in 1..dim : neg[d])                  \* parity moments: every direction signed
Next == UNCHANGED vars
Spec == Init /\ [][Next]_vars

G == Grid(size, dim, neg, force)
AllPresent == [d \in 1..dim |-> TRUE]
AllInv == LET g == G IN
  /\ Len(g.pts) = size
  /\ \A i, j \in 1..size : i # j => g.pts[i] # g.pts[j]                                  \* distinct lattice points
  /\ \A i \in 1..size : IF force THEN L1(g.pts[i]) = g.nu ELSE L1(g.pts[i]) <= g.nu       \* L1 <= n_units  (=> <= grid_limit after scaling)
  /\ g.nu >= 1                                                                            \* the rescaling grid_limit / n_units is defined
  /\ \A i \in 1..size : \A d \in 1..dim : (~neg[d]) => g.pts[i][d] >= 0
  \* with every basis direction present the coefficient -> multiplier map is injective and norm preserving,
  \* and the multipliers are non-negative
  /\ \A i, j \in 1..size : i # j => Lambda(g.pts[i], AllPresent) # Lambda(g.pts[j], AllPresent)
  /\ \A i \in 1..size : LambdaL1(g.pts[i], AllPresent) = L1(g.pts[i])
  /\ g.nu > 0 => Len(IntGrid(g.nu - 1, dim, neg, force)) < size                           \* minimality of n_units

\* ---- selection rule: first index minimising (1-cw)*objective + cw*max(gamma), on integer-scaled inputs
\* (checked on all small loss vectors: the chosen index is a minimiser and is the first one)
SelectFirstMin(losses) == CHOOSE i \in 1..Len(losses) : (\A j \in 1..Len(losses) : losses[i] <= losses[j]) /\ (\A j \in 1..(i - 1) : losses[j] > losses[i])
SelectionLaw == \A ls \in [1..3 -> 0..2] : LET i == SelectFirstMin(ls) IN \A j \in 1..3 : ls[i] <= ls[j]

\* ---- extension beyond C09: user-supplied grid and grid_offset ----------------------------------
\* a user-supplied grid is used verbatim (one predictor per column, in column order); grid_offset is added
\* to every generated multiplier vector (component-wise on the constraint index), which preserves the
\* number of grid points and their distinctness
OffsetGrid(pts, off) == [i \in 1..Len(pts) |-> [d \in 1..Len(pts[i]) |-> pts[i][d] + off[d]]]
OffsetLaw == \A off \in [1..dim -> 0..1] :
                LET og == OffsetGrid(G.pts, off) IN
                /\ Len(og) = size
                /\ \A i, j \in 1..size : i # j => og[i] # og[j]

Obs == [dim |-> dim, neg |-> [d \in 1..dim |-> neg[d]], force |-> force, size |-> size, nu |-> G.nu, pts |-> G.pts]
EmitInv == Emit => PrintT(ToJson(Obs))
=============================================================================
