------------------------------ MODULE Frame ------------------------------
(* MetricFrame with one sensitive feature (G groups) and an optional control feature         *)
(* (S strata; S = 1 means "no control feature"): by_group cells, overall, group_min/max,      *)
(* difference and ratio (between_groups / to_overall), and the named fairness metrics         *)
(* (C02, C03, C11).  Everything is an exact rational computed from first principles: a cell   *)
(* is the metric of exactly the rows carrying (stratum, group).                               *)
(*                                                                                            *)
(* Undefined values follow the IEEE reading of the documented formulas (DESIGN section 3):    *)
(* an empty (stratum, group) combination is Undef (NaN) and is skipped by min/max; 0/0 is     *)
(* Undef; x/0 with x>0 is +infinity and is folded to 0 by min(r, 1/r).                        *)
EXTENDS Rat, TLC, Json, FiniteSetsExt

CONSTANTS N, G, W, S, Emit, NShards, Shard

NT == G * S * 4 * W
Gof(t) == (t \div (S * 4 * W)) + 1
Cof(t) == ((t \div (4 * W)) % S) + 1
Yof(t) == (t \div (2 * W)) % 2
Pof(t) == (t \div W) % 2
Wof(t) == (t % W) + 1

VARIABLE rows
vars == <<rows>>
Init == rows = <<>>
AddRow(t) == /\ Len(rows) < N
             /\ IF rows = <<>> THEN t % NShards = Shard ELSE rows[Len(rows)] <= t
             /\ rows' = Append(rows, t)
Next == \E t \in 0..(NT - 1) : AddRow(t)
NextSim == \E t \in 0..(NT - 1) : Len(rows) < N /\ rows' = Append(rows, t)
Spec == Init /\ [][Next]_vars

All == 1..Len(rows)
Sum(T, f(_)) == FoldSet(LAMBDA i, acc : acc + f(i), 0, T)
Wt(uw, i) == IF uw THEN Wof(rows[i]) ELSE 1

Metrics == <<"sel", "tpr", "fpr", "fnr", "tnr", "acc", "prec", "zol", "smean", "precn", "tpc", "amean">>
\* "amean" = |smean| is NON-NEGATIVE but not a mean: the overall value can be exactly 0 while groups are not (to_overall ratio: r = +inf, min(r, 1/r) = 0)
\* "tpc" is integer valued (the by_group column of an all-integer frame has an integer dtype)
\* "precn" can be undefined (NaN) on a non-empty group; NaN cells are skipped by every aggregate exactly like empty combinations
\* "smean" is a SIGNED metric: the weighted mean of the per-row score (2*pred - 1) * (1 + y) in {-2, -1, 1, 2}
NonNegMetrics == {"sel", "tpr", "fpr", "fnr", "tnr", "acc", "prec", "zol", "amean"}
MetricSet == {Metrics[k] : k \in 1..Len(Metrics)}

\* metric m on the row set T (weights used iff uw); Undef for the empty set
MetricOn(m, T, uw) ==
  IF T = {} THEN Undef ELSE
  LET tp == Sum({i \in T : Yof(rows[i]) = 1 /\ Pof(rows[i]) = 1}, LAMBDA i : Wt(uw, i))
      fn == Sum({i \in T : Yof(rows[i]) = 1 /\ Pof(rows[i]) = 0}, LAMBDA i : Wt(uw, i))
      fp == Sum({i \in T : Yof(rows[i]) = 0 /\ Pof(rows[i]) = 1}, LAMBDA i : Wt(uw, i))
      tn == Sum({i \in T : Yof(rows[i]) = 0 /\ Pof(rows[i]) = 0}, LAMBDA i : Wt(uw, i))
      R0(a, b) == IF b = 0 THEN Zero ELSE Frac(a, b)       \* empty denominator => 0 (documented)
  IN CASE m = "sel"  -> Frac(tp + fp, tp + fn + fp + tn)
       [] m = "tpr"  -> R0(tp, tp + fn)
       [] m = "fnr"  -> R0(fn, tp + fn)
       [] m = "fpr"  -> R0(fp, fp + tn)
       [] m = "tnr"  -> R0(tn, fp + tn)
       [] m = "acc"  -> Frac(tp + tn, tp + fn + fp + tn)
       [] m = "prec" -> R0(tp, tp + fp)
       [] m = "zol"  -> Frac(fp + fn, tp + fn + fp + tn)
       [] m = "smean" -> Frac(2 * tp + fp - 2 * fn - tn, tp + fn + fp + tn)
       [] m = "amean" -> AbsR(Frac(2 * tp + fp - 2 * fn - tn, tp + fn + fp + tn))
       [] m = "tpc"   -> OfInt(Cardinality({i \in T : Yof(rows[i]) = 1 /\ Pof(rows[i]) = 1}))          \* an INTEGER-valued metric: the number of true positives
       [] m = "precn" -> IF tp + fp = 0 THEN Undef ELSE Frac(tp, tp + fp)       \* precision, UNDEFINED (NaN) without predicted positives

Strata == {c \in 1..S : \E i \in All : Cof(rows[i]) = c}         \* observed control values
Groups == {g \in 1..G : \E i \in All : Gof(rows[i]) = g}         \* observed sensitive values
RowsOf(c, g) == {i \in All : Cof(rows[i]) = c /\ Gof(rows[i]) = g}
RowsOfStratum(c) == {i \in All : Cof(rows[i]) = c}

\* by_group index = Strata \X Groups (product of the observed values); empty combination => Undef
Cell(m, c, g, uw) == MetricOn(m, RowsOf(c, g), uw)
Overall(m, c, uw) == MetricOn(m, RowsOfStratum(c), uw)
CellVals(m, c, uw) == {Cell(m, c, g, uw) : g \in Groups}
GroupMin(m, c, uw) == MinSkip(CellVals(m, c, uw))
GroupMax(m, c, uw) == MaxSkip(CellVals(m, c, uw))
DiffBetween(m, c, uw) == Sub(GroupMax(m, c, uw), GroupMin(m, c, uw))
DiffOverall(m, c, uw) == MaxSkip({AbsR(Sub(Cell(m, c, g, uw), Overall(m, c, uw))) : g \in Groups})
RatioBetween(m, c, uw) == LET q == Div(GroupMin(m, c, uw), GroupMax(m, c, uw)) IN IF IsInf(q) THEN Undef ELSE q     \* signed metrics: x/0 is not specified
\* min(r, 1/r) with r = group/overall; r = +inf folds to 0, r undefined is skipped
SubOne(r) == IF ~IsDef(r) THEN (IF IsInf(r) THEN Zero ELSE Undef)
             ELSE IF Lt(One, r) THEN Div(One, r) ELSE r
RatioOverall(m, c, uw) == IF m \notin NonNegMetrics /\ Overall(m, c, uw) = Zero THEN Undef      \* signed metric, zero overall: not specified
                          ELSE MinSkip({SubOne(Div(Cell(m, c, g, uw), Overall(m, c, uw))) : g \in Groups})

\* ---- the same rows read as TWO SENSITIVE features (stratum, group) and no control feature: the by_group index is
\* the product Strata \X Groups (empty combinations are NaN and skipped), aggregates range over the whole product
AllCells(m, uw) == {Cell(m, c, g, uw) : c \in Strata, g \in Groups}
Overall2(m, uw) == MetricOn(m, All, uw)
GroupMin2(m, uw) == MinSkip(AllCells(m, uw))
GroupMax2(m, uw) == MaxSkip(AllCells(m, uw))
DiffBetween2(m, uw) == Sub(GroupMax2(m, uw), GroupMin2(m, uw))
DiffOverall2(m, uw) == MaxSkip({AbsR(Sub(x, Overall2(m, uw))) : x \in AllCells(m, uw)})
RatioBetween2(m, uw) == LET q == Div(GroupMin2(m, uw), GroupMax2(m, uw)) IN IF IsInf(q) THEN Undef ELSE q
RatioOverall2(m, uw) == IF m \notin NonNegMetrics /\ Overall2(m, uw) = Zero THEN Undef
                           ELSE MinSkip({SubOne(Div(x, Overall2(m, uw))) : x \in AllCells(m, uw)})
TwoSF(m, uw) == [overall |-> Overall2(m, uw), gmin |-> GroupMin2(m, uw), gmax |-> GroupMax2(m, uw), diff_b |-> DiffBetween2(m, uw),
                 diff_o |-> DiffOverall2(m, uw), ratio_b |-> RatioBetween2(m, uw), ratio_o |-> RatioOverall2(m, uw)]
LawTwoSF == rows # <<>> => \A m \in NonNegMetrics, uw \in BOOLEAN :
    /\ Le(Zero, DiffBetween2(m, uw)) /\ Le(DiffBetween2(m, uw), Mul(<<2, 1>>, DiffOverall2(m, uw)))
    /\ IsDef(RatioOverall2(m, uw)) => Le(RatioOverall2(m, uw), One)

\* ---- named fairness metrics (no control feature; evaluated in stratum 1 when S = 1) -------
Agg(kind, method, m, uw) ==
   CASE kind = "difference" /\ method = "between_groups" -> DiffBetween(m, 1, uw)
     [] kind = "difference" /\ method = "to_overall"     -> DiffOverall(m, 1, uw)
     [] kind = "ratio" /\ method = "between_groups"      -> RatioBetween(m, 1, uw)
     [] kind = "ratio" /\ method = "to_overall"          -> RatioOverall(m, 1, uw)
DPDiff(method, uw)  == Agg("difference", method, "sel", uw)
DPRatio(method, uw) == Agg("ratio", method, "sel", uw)
EOppDiff(method, uw)  == Agg("difference", method, "tpr", uw)
EOppRatio(method, uw) == Agg("ratio", method, "tpr", uw)
Half == <<1, 2>>
EOddsDiff(method, agg, uw) ==
   LET a == Agg("difference", method, "tpr", uw)  b == Agg("difference", method, "fpr", uw)
   IN IF agg = "worst_case" THEN MaxR2(a, b) ELSE Mul(Half, Add(a, b))
\* worst case / mean of the two ratios; when one of the two ratios is undefined (all groups have
\* rate 0) the combination is left unconstrained by this specification (Undef = "not compared")
EOddsRatio(method, agg, uw) ==
   LET a == Agg("ratio", method, "tpr", uw)  b == Agg("ratio", method, "fpr", uw)
   IN IF ~IsDef(a) \/ ~IsDef(b) THEN Undef
      ELSE IF agg = "worst_case" THEN MinR2(a, b) ELSE Mul(Half, Add(a, b))

Methods == <<"between_groups", "to_overall">>
Aggs == <<"worst_case", "mean">>

\* ---- laws: the "hence" clauses of C02 follow from the definitions ---------------------------
Two == <<2, 1>>
NonNegDef(q) == IsDef(q) => Le(Zero, q)
LawAggregates == rows # <<>> => \A m \in NonNegMetrics, c \in Strata, uw \in BOOLEAN :
    /\ IsDef(GroupMin(m, c, uw)) /\ IsDef(GroupMax(m, c, uw)) /\ Le(GroupMin(m, c, uw), GroupMax(m, c, uw))
    /\ Le(Zero, DiffBetween(m, c, uw)) /\ Le(Zero, DiffOverall(m, c, uw))
    /\ IsDef(RatioBetween(m, c, uw)) => (Le(RatioBetween(m, c, uw), One) /\ Le(Zero, RatioBetween(m, c, uw)))
    /\ IsDef(RatioOverall(m, c, uw)) => (Le(RatioOverall(m, c, uw), One) /\ Le(Zero, RatioOverall(m, c, uw)))
    /\ Le(DiffBetween(m, c, uw), Mul(Two, DiffOverall(m, c, uw)))
\* sample-weighted means of a per-row quantity: the overall value is a convex combination of the cells
\* for every metric, signed ones included: difference >= 0, between <= 2 * to_overall, difference(between) = max - min
LawSigned == rows # <<>> => \A m \in MetricSet \ {"precn"}, c \in Strata, uw \in BOOLEAN :
    /\ Le(Zero, DiffBetween(m, c, uw)) /\ Le(Zero, DiffOverall(m, c, uw))
    /\ Le(DiffBetween(m, c, uw), Mul(Two, DiffOverall(m, c, uw)))
LawWeightedMean == rows # <<>> => \A m \in {"sel", "acc", "zol", "smean"}, c \in Strata, uw \in BOOLEAN :
    /\ Le(DiffOverall(m, c, uw), DiffBetween(m, c, uw))
    /\ Le(GroupMin(m, c, uw), Overall(m, c, uw)) /\ Le(Overall(m, c, uw), GroupMax(m, c, uw))
\* cells partition the rows of their stratum
LawPartition == \A c \in Strata : /\ UNION {RowsOf(c, g) : g \in Groups} = RowsOfStratum(c)
                                   /\ \A g, h \in Groups : g # h => RowsOf(c, g) \cap RowsOf(c, h) = {}
\* C11 inside the frame: weight k == k unit copies (the cell's weighted counts are what an expanded
\* frame counts with unit weights), all-ones weights == no weights
LawUnitWeights == (rows # <<>> /\ \A i \in All : Wof(rows[i]) = 1) =>
      \A m \in MetricSet, c \in Strata, g \in Groups : Cell(m, c, g, TRUE) = Cell(m, c, g, FALSE)
\* vacuity witnesses (reported through -coverage / evaluated in the harness from the emission)
HasEmptyCell == \E c \in Strata, g \in Groups : RowsOf(c, g) = {}
HasSingleton == \E c \in Strata, g \in Groups : Cardinality(RowsOf(c, g)) = 1

\* ---- emission ------------------------------------------------------------------------------
GSeq == [g \in 1..G |-> g]
PerMetric(m, uw) ==
   [cells   |-> [c \in 1..S |-> [g \in 1..G |-> IF c \in Strata /\ g \in Groups THEN Cell(m, c, g, uw) ELSE Undef]],
    overall |-> [c \in 1..S |-> IF c \in Strata THEN Overall(m, c, uw) ELSE Undef],
    gmin    |-> [c \in 1..S |-> IF c \in Strata THEN GroupMin(m, c, uw) ELSE Undef],
    gmax    |-> [c \in 1..S |-> IF c \in Strata THEN GroupMax(m, c, uw) ELSE Undef],
    diff_b  |-> [c \in 1..S |-> IF c \in Strata THEN DiffBetween(m, c, uw) ELSE Undef],
    diff_o  |-> [c \in 1..S |-> IF c \in Strata THEN DiffOverall(m, c, uw) ELSE Undef],
    ratio_b |-> [c \in 1..S |-> IF c \in Strata THEN RatioBetween(m, c, uw) ELSE Undef],
    ratio_o |-> [c \in 1..S |-> IF c \in Strata THEN RatioOverall(m, c, uw) ELSE Undef],
    two_sf  |-> TwoSF(m, uw)]
Named(uw) ==
   [dp_diff   |-> [k \in 1..2 |-> DPDiff(Methods[k], uw)],
    dp_ratio  |-> [k \in 1..2 |-> DPRatio(Methods[k], uw)],
    eopp_diff |-> [k \in 1..2 |-> EOppDiff(Methods[k], uw)],
    eopp_ratio|-> [k \in 1..2 |-> EOppRatio(Methods[k], uw)],
    eodds_diff |-> [k \in 1..2 |-> [a \in 1..2 |-> EOddsDiff(Methods[k], Aggs[a], uw)]],
    eodds_ratio|-> [k \in 1..2 |-> [a \in 1..2 |-> EOddsRatio(Methods[k], Aggs[a], uw)]]]
Obs == [rows |-> [i \in All |-> <<Gof(rows[i]), Cof(rows[i]), Yof(rows[i]), Pof(rows[i]), Wof(rows[i])>>],
        strata |-> [c \in 1..S |-> c \in Strata], groups |-> [g \in 1..G |-> g \in Groups],
        w |-> [k \in 1..Len(Metrics) |-> PerMetric(Metrics[k], TRUE)],
        u |-> [k \in 1..Len(Metrics) |-> PerMetric(Metrics[k], FALSE)],
        named_w |-> IF S = 1 THEN Named(TRUE) ELSE <<>>,
        named_u |-> IF S = 1 THEN Named(FALSE) ELSE <<>>,
        empty_cell |-> HasEmptyCell, singleton |-> HasSingleton]
EmitInv == (Emit /\ rows # <<>>) => PrintT(ToJson(Obs))
=============================================================================
