------------------------------- MODULE Encode -------------------------------
(* Extension beyond the listed properties: fairlearn.adversarial._preprocessor.FloatTransformer, *)
(* the encoder that the adversarial estimators put in front of labels and sensitive features.     *)
(* Values are numerators over 2 (0, 1/2, 1, 3/2, 2), so a column can hold non-integer numbers.     *)
(*   a column with a non-integer value            -> "continuous": passed through, width 1        *)
(*   otherwise, at most two distinct values       -> "binary"                                     *)
(*   otherwise                                    -> "multiclass"                                 *)
(* The categories are the sorted distinct training values.  Two categories are encoded in ONE      *)
(* column (0 for the smaller, 1 for the larger value); any other number of categories k is one-hot *)
(* encoded in k columns (k = 1: a constant column of ones).                                        *)
(* transform(q):  a query column whose inferred type differs from the fitted one is REJECTED,      *)
(*                a categorical query holding a value that was not seen in fit is REJECTED,        *)
(*                otherwise every row is encoded.  inverse_transform inverts the encoding.         *)
(* Deviation of the code named as such (SubsetBatch): the type of the QUERY is inferred afresh,    *)
(* so a batch that happens to hold at most two of >= 3 fitted classes is rejected although every    *)
(* value is known.                                                                                  *)
EXTENDS Integers, Sequences, FiniteSets, TLC, Json, SequencesExt

CONSTANTS MaxLen, Emit, NShards, Shard

V == 0..4
Cols == UNION {[1..n -> V] : n \in 1..MaxLen}
VARIABLES fitc, q
vars == <<fitc, q>>
Init == fitc \in Cols /\ q \in Cols
Next == UNCHANGED vars
Spec == Init /\ [][Next]_vars

Vals(c) == {c[i] : i \in 1..Len(c)}
IsInt(v) == v % 2 = 0
TypeOf(c) == IF \E v \in Vals(c) : ~IsInt(v) THEN "continuous"
             ELSE IF Cardinality(Vals(c)) <= 2 THEN "binary" ELSE "multiclass"
Cats == SetToSortSeq(Vals(fitc), <)                     \* sorted distinct training values
K == Len(Cats)
Width == IF TypeOf(fitc) = "continuous" THEN 1 ELSE IF K = 2 THEN 1 ELSE K
IdxOf(v) == CHOOSE i \in 1..K : Cats[i] = v
\* encoded row as numerators over 2 (so that the continuous pass-through stays exact)
Enc(v) == IF TypeOf(fitc) = "continuous" THEN <<v>>
          ELSE IF K = 2 THEN <<2 * (IdxOf(v) - 1)>>
          ELSE [j \in 1..K |-> IF j = IdxOf(v) THEN 2 ELSE 0]
Dec(row) == IF TypeOf(fitc) = "continuous" THEN row[1]
            ELSE IF K = 2 THEN Cats[(row[1] \div 2) + 1]
            ELSE Cats[CHOOSE j \in 1..K : row[j] = 2]
SubsetBatch == TypeOf(fitc) = "multiclass" /\ Vals(q) \subseteq Vals(fitc) /\ Cardinality(Vals(q)) <= 2
Outcome == IF TypeOf(q) # TypeOf(fitc) THEN "type_error"
           ELSE IF TypeOf(fitc) # "continuous" /\ ~(Vals(q) \subseteq Vals(fitc)) THEN "unknown_category"
           ELSE "ok"
Rows == IF Outcome = "ok" THEN [i \in 1..Len(q) |-> Enc(q[i])] ELSE <<>>

\* ---- laws
RoundTrip == \A v \in Vals(fitc) : Dec(Enc(v)) = v
WidthLaw == \A v \in Vals(fitc) : Len(Enc(v)) = Width
Injective == \A v, w \in Vals(fitc) : Enc(v) = Enc(w) => v = w
TrainingDataAccepted == q = fitc => Outcome = "ok"
OneHot == (TypeOf(fitc) # "continuous" /\ K # 2) => \A v \in Vals(fitc) : Cardinality({j \in 1..K : Enc(v)[j] = 2}) = 1
\* apart from the named deviation, a query made of known values is never rejected
KnownValuesAccepted == (TypeOf(fitc) # "continuous" /\ Vals(q) \subseteq Vals(fitc) /\ ~SubsetBatch) => Outcome = "ok"
DeviationIsRejection == SubsetBatch => Outcome = "type_error"

Obs == [fit |-> fitc, q |-> q, type |-> TypeOf(fitc), cats |-> Cats, width |-> Width, outcome |-> Outcome, rows |-> Rows,
        subset_batch |-> SubsetBatch]
H(c) == LET RECURSIVE S(_) S(i) == IF i = 0 THEN 0 ELSE S(i - 1) * 5 + c[i] IN S(Len(c))
MyShard == (H(fitc) + 3 * H(q)) % NShards = Shard
EmitInv == (Emit /\ MyShard) => PrintT(ToJson(Obs))
=============================================================================
