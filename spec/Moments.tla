------------------------------ MODULE Moments ------------------------------
(* Constraint moments of fairlearn.reductions (C06, C07; payoff tables for C08, C09).          *)
(*                                                                                              *)
(* A row is (group g, label y, control stratum c, feature value f).  S = 1 means "no control    *)
(* feature"; F = 1 means "no feature" (predictors are arbitrary per-row vectors).               *)
(* An EVENT is a pair <<stratum, label class>>; label class 2 = "all rows".  A row outside the  *)
(* conditioned label class belongs to NO event.  The constraint index is                        *)
(*      {"+","-"} x {(event, group) pairs that occur in the data}.                              *)
(*   gamma(+,e,g) = r * mean_{e,g}(u) - mean_e(u)       gamma(-,e,g) = r * mean_e(u) - mean_{e,g}(u) *)
(* with u = prediction (error indicator for error-rate parity).                                 *)
EXTENDS Rat, TLC, Json, FiniteSetsExt, SequencesExt

CONSTANTS N, G, S, F, Kinds, Emit, Mode, NShards, Shard

NT == G * 2 * S * F
Gof(t) == (t \div (2 * S * F)) + 1
Yof(t) == (t \div (S * F)) % 2
Cof(t) == ((t \div F) % S) + 1
Fof(t) == t % F

VARIABLE rows
vars == <<rows>>
Init == rows = <<>>
AddRow(t) == /\ Len(rows) < N
             /\ IF rows = <<>> THEN TRUE ELSE rows[Len(rows)] <= t
             /\ rows' = Append(rows, t)
Next == \E t \in 0..(NT - 1) : AddRow(t)
NextSim == \E t \in 0..(NT - 1) : Len(rows) < N /\ rows' = Append(rows, t)
Spec == Init /\ [][Next]_vars

Rows == 1..Len(rows)
n == Len(rows)
Sum(T, f(_)) == FoldSet(LAMBDA i, acc : acc + f(i), 0, T)
SumR(T, f(_)) == FoldSet(LAMBDA i, acc : Add(acc, f(i)), Zero, T)
SumRows == FoldSet(LAMBDA i, acc : acc + rows[i] * i, 0, Rows)
MyShard == SumRows % NShards = Shard

\* bounds: ratio r and slack eps are configuration, enumerated here as small sets
RatiosDef == << <<1, 1>>, <<4, 5>>, <<1, 2>> >>
Ratios == {RatiosDef[k] : k \in 1..Len(RatiosDef)}

\* ---- events, index ---------------------------------------------------------------------------
LabClasses(kind) == CASE kind = "DP" -> {2} [] kind = "ERP" -> {2} [] kind = "TPR" -> {1} [] kind = "FPR" -> {0} [] kind = "EO" -> {0, 1}
InEvent(i, e) == Cof(rows[i]) = e[1] /\ (e[2] = 2 \/ Yof(rows[i]) = e[2])
EvRows(e) == {i \in Rows : InEvent(i, e)}
EGRows(e, g) == {i \in EvRows(e) : Gof(rows[i]) = g}
Events(kind) == {e \in (1..S) \X LabClasses(kind) : EvRows(e) # {}}
Pairs(kind) == {p \in Events(kind) \X (1..G) : EGRows(p[1], p[2]) # {}}
Index(kind) == {"+", "-"} \X Pairs(kind)
NoEvent(kind, i) == \A e \in Events(kind) : ~InEvent(i, e)

\* ---- gamma for a 0/1 predictor h : Rows -> {0,1} -------------------------------------------
\* utility of the prediction: h itself; for error-rate parity the error indicator
Util(kind, h, i) == IF kind = "ERP" THEN (IF Yof(rows[i]) = 1 THEN 1 - h[i] ELSE h[i]) ELSE h[i]
MeanU(kind, h, T) == Frac(Sum(T, LAMBDA i : Util(kind, h, i)), Cardinality(T))
Gamma(kind, r, h, k) ==
   LET e == k[2][1]  g == k[2][2]
       me == MeanU(kind, h, EvRows(e))  meg == MeanU(kind, h, EGRows(e, g))
   IN IF k[1] = "+" THEN Sub(Mul(r, meg), me) ELSE Sub(Mul(r, me), meg)
Err(h) == Frac(Sum(Rows, LAMBDA i : IF h[i] = Yof(rows[i]) THEN 0 ELSE 1), n)
\* cost-sensitive error (ErrorRate with costs fp, fn)
CostErr(h, fp, fn) == Frac(Sum(Rows, LAMBDA i : IF Yof(rows[i]) = 1 THEN fn * (1 - h[i]) ELSE fp * h[i]), n)

\* ---- matrix U and signed weights --------------------------------------------------------------
\*   U[i,(+,e,g)] = 1[i in e]/P(e) - r * 1[i in (e,g)]/P(e,g)      P(e) = |e|/n
\*   U[i,(-,e,g)] = 1[i in (e,g)]/P(e,g) - r * 1[i in e]/P(e)
UEntry(kind, r, i, k) ==
   LET e == k[2][1]  g == k[2][2]
       ie == IF InEvent(i, e) THEN Frac(n, Cardinality(EvRows(e))) ELSE Zero
       ieg == IF InEvent(i, e) /\ Gof(rows[i]) = g THEN Frac(n, Cardinality(EGRows(e, g))) ELSE Zero
   IN IF k[1] = "+" THEN Sub(ie, Mul(r, ieg)) ELSE Sub(ieg, Mul(r, ie))
\* utility_diff = u(predict 1) - u(predict 0):  1, or 1 - 2y for error-rate parity
UDiff(kind, i) == IF kind = "ERP" THEN (IF Yof(rows[i]) = 1 THEN -1 ELSE 1) ELSE 1
SW(kind, r, i, k) == Mul(OfInt(UDiff(kind, i)), UEntry(kind, r, i, k))      \* signed weight of row i for the unit multiplier at k
\* objective (ErrorRate) weights:  -c_fp + (c_fp + c_fn) * y
ObjW(i, fp, fn) == -fp + (fp + fn) * Yof(rows[i])

Hs == [Rows -> {0, 1}]
ZeroH == [i \in Rows |-> 0]
UnitH(j) == [i \in Rows |-> IF i = j THEN 1 ELSE 0]

\* ---- C06 laws ----------------------------------------------------------------------------------
PairedSigns(kind) == \A p \in Pairs(kind) : <<"+", p>> \in Index(kind) /\ <<"-", p>> \in Index(kind)
\* rows outside the conditioned label class are in no event; every other row is in exactly one
EventMembership(kind) == \A i \in Rows :
      IF 2 \in LabClasses(kind) \/ Yof(rows[i]) \in LabClasses(kind)
      THEN Cardinality({e \in Events(kind) : InEvent(i, e)}) = 1 ELSE NoEvent(kind, i)
\* gamma is affine in the predictor
Affine(kind, r) == \A k \in Index(kind) : \A h \in Hs :
      Eq(Gamma(kind, r, h, k),
         Add(Gamma(kind, r, ZeroH, k), SumR({i \in Rows : h[i] = 1}, LAMBDA i : Sub(Gamma(kind, r, UnitH(i), k), Gamma(kind, r, ZeroH, k)))))
\* r = 1: the '+' entry is (group rate - overall rate) of the matching rate, within the event
RatioOne(kind) == \A k \in Index(kind) : \A h \in Hs : k[1] = "+" =>
      Eq(Gamma(kind, One, h, k), Sub(MeanU(kind, h, EGRows(k[2][1], k[2][2])), MeanU(kind, h, EvRows(k[2][1]))))
\* + and - entries are negatives of each other iff r = 1
SignSymmetry(kind) == \A p \in Pairs(kind) : \A h \in Hs : Eq(Gamma(kind, One, h, <<"+", p>>), Neg(Gamma(kind, One, h, <<"-", p>>)))

\* ---- C07 laws ----------------------------------------------------------------------------------
\* unit multiplier at k:  gamma_k(h) - gamma_k(0) = -(1/n) sum_i w_i h_i
IdentityOK(kind, r) == \A k \in Index(kind) : \A h \in Hs :
      Eq(Sub(Gamma(kind, r, h, k), Gamma(kind, r, ZeroH, k)),
         Mul(Frac(-1, n), SumR({i \in Rows : h[i] = 1}, LAMBDA i : SW(kind, r, i, k))))
\* multiplier vectors on a small grid: entries in 0..2, at most two non-zero entries
IdxSeq(kind) == SetToSeq(Index(kind))
Lambdas(kind) == LET m == Len(IdxSeq(kind))
                     V(a, va, b, vb) == [j \in 1..m |-> IF j = a THEN va ELSE IF j = b THEN vb ELSE 0]
                 IN {V(a, va, a, va) : a \in 1..m, va \in 0..2}
                    \cup {V(ab[1], vv[1], ab[2], vv[2]) : ab \in {x \in (1..m) \X (1..m) : x[1] < x[2]}, vv \in {<<1, 1>>, <<2, 1>>, <<1, 2>>}}
LGamma(kind, r, h, l) == SumR(DOMAIN l, LAMBDA j : Mul(OfInt(l[j]), Gamma(kind, r, h, IdxSeq(kind)[j])))
LSum(l) == Sum(DOMAIN l, LAMBDA j : l[j])
\* project_lambda (only for r = 1): pos = l+ - l-, neg = -pos, both clipped at 0
PosOf(kind, j) == IdxSeq(kind)[j][2]
Partner(kind, j) == CHOOSE j2 \in 1..Len(IdxSeq(kind)) : IdxSeq(kind)[j2][2] = PosOf(kind, j) /\ IdxSeq(kind)[j2][1] # IdxSeq(kind)[j][1]
Project(kind, r, l) == IF r # One THEN l
                       ELSE [j \in DOMAIN l |-> LET d == l[j] - l[Partner(kind, j)] IN IF d > 0 THEN d ELSE 0]
DotL(l, gv) == SumR(DOMAIN l, LAMBDA j : Mul(OfInt(l[j]), gv[j]))
ProjectOK(kind, r) ==
      LET ix == IdxSeq(kind)
          GT == [h \in Hs |-> [j \in 1..Len(ix) |-> Gamma(kind, r, h, ix[j])]]       \* gamma table, once per (kind, r)
          ET == [h \in Hs |-> Err(h)]
          Lg(eps, h, l) == Add(ET[h], Sub(DotL(l, GT[h]), Mul(eps, OfInt(LSum(l)))))    \* Lagrangian error + lambda.(gamma - eps)
      IN \A l \in Lambdas(kind) :
           LET pl == Project(kind, r, l) IN
           /\ \A j \in DOMAIN pl : pl[j] >= 0
           /\ \A h \in Hs : \A eps \in {Zero, <<1, 10>>} : Le(Lg(eps, h, l), Lg(eps, h, pl))
\* the relabel / reweight reduction is exact on the hypothesis class  Hyp == feature value -> label
Hyp == [0..(F - 1) -> {0, 1}]
HofHyp(hy) == [i \in Rows |-> hy[Fof(rows[i])]]
ReductionExact(kind, r) ==
      LET ix == IdxSeq(kind)
          GT == [hy \in Hyp |-> [j \in 1..Len(ix) |-> Gamma(kind, r, HofHyp(hy), ix[j])]]
          ET == [hy \in Hyp |-> Err(HofHyp(hy))]
          SWT == [i \in Rows |-> [j \in 1..Len(ix) |-> SW(kind, r, i, ix[j])]]
      IN \A l \in Lambdas(kind) :
           LET W == [i \in Rows |-> Add(OfInt(ObjW(i, 1, 1)), DotL(l, SWT[i]))]         \* objective weights + signed weights
               \* weighted 0/1 error of hy against labels 1[w > 0] with weights |w|
               RC == [hy \in Hyp |-> SumR(Rows, LAMBDA i : IF hy[Fof(rows[i])] # (IF Lt(Zero, W[i]) THEN 1 ELSE 0) THEN AbsR(W[i]) ELSE Zero)]
               LO == [hy \in Hyp |-> Add(ET[hy], DotL(l, GT[hy]))]                        \* error + lambda.gamma
           IN {hy \in Hyp : \A h2 \in Hyp : Le(RC[hy], RC[h2])} = {hy \in Hyp : \A h2 \in Hyp : Le(LO[hy], LO[h2])}

\* ---- loss moments (BoundedGroupLoss / MeanLoss): predictions and labels on the half-integer grid
\*      value v stands for v/2; clipping to [lo, hi] (also in halves)
PV == <<-2, 0, 1, 2, 4>>                                   \* -1, 0, 1/2, 1, 2
Clip(v, lo, hi) == IF v < lo THEN lo ELSE IF v > hi THEN hi ELSE v
LossOf(loss, y2, p2, lo, hi) ==                            \* y2, p2, lo, hi in halves
   LET d == Clip(y2, lo, hi) - Clip(p2, lo, hi)
   IN CASE loss = "square" -> Frac(d * d, 4) [] loss = "absolute" -> Frac(Abs(d), 2) [] loss = "zero_one" -> Frac(Abs(Clip(y2, 0, 2) - Clip(p2, 0, 2)), 2)
GroupsPresent == {g \in 1..G : \E i \in Rows : Gof(rows[i]) = g}
GRows(g) == {i \in Rows : Gof(rows[i]) = g}
PredVec(kv) == [i \in Rows |-> PV[((i + kv) % Len(PV)) + 1]]          \* deterministic prediction vectors derived from the state
BGLGamma(loss, hv, lo, hi, g) == Div(SumR(GRows(g), LAMBDA i : LossOf(loss, 2 * Yof(rows[i]), hv[i], lo, hi)), OfInt(Cardinality(GRows(g))))
\* signed weights of a loss moment: lambda_g / P(g) on the rows of g;   lambda.gamma(h) = (1/n) sum_i w_i loss_i(h)
BGLWeight(l, i) == Mul(OfInt(l[Gof(rows[i])]), Frac(n, Cardinality(GRows(Gof(rows[i])))))
LossIdentity == \A loss \in {"square", "absolute", "zero_one"} : \A kv \in 0..1 : \A l \in [1..G -> 0..2] :
      Eq(SumR(GroupsPresent, LAMBDA g : Mul(OfInt(l[g]), BGLGamma(loss, PredVec(kv), 0, 2, g))),
         Mul(Frac(1, n), SumR(Rows, LAMBDA i : Mul(BGLWeight(l, i), LossOf(loss, 2 * Yof(rows[i]), PredVec(kv)[i], 0, 2)))))

LawsC06 == rows # <<>> => \A kind \in Kinds : /\ PairedSigns(kind) /\ EventMembership(kind) /\ RatioOne(kind) /\ SignSymmetry(kind)
                                               /\ \A r \in Ratios : Affine(kind, r)
LawsC07 == rows # <<>> => /\ \A kind \in Kinds : \A r \in Ratios : IdentityOK(kind, r)
                          /\ LossIdentity
LawsProject == rows # <<>> => \A kind \in Kinds : \A r \in {One, <<4, 5>>} : ProjectOK(kind, r)
LawsReduction == rows # <<>> => \A kind \in Kinds : \A r \in {One, <<4, 5>>} : ReductionExact(kind, r)

\* ---- emission ---------------------------------------------------------------------------------
Flat(k) == <<k[1], k[2][1][1], k[2][1][2], k[2][2]>>
KindSeq == SetToSeq(Kinds)
Costs == << <<1, 1>>, <<2, 1>>, <<1, 3>>, <<0, 1>> >>
MomentObs(kind) ==
   LET ix == IdxSeq(kind) IN
   [kind |-> kind,
    index |-> [j \in 1..Len(ix) |-> Flat(ix[j])],
    per_ratio |-> [q \in 1..Len(RatiosDef) |->
        [gamma0 |-> [j \in 1..Len(ix) |-> Gamma(kind, RatiosDef[q], ZeroH, ix[j])],
         gamma_unit |-> [i \in Rows |-> [j \in 1..Len(ix) |-> Gamma(kind, RatiosDef[q], UnitH(i), ix[j])]],
         sw |-> [i \in Rows |-> [j \in 1..Len(ix) |-> SW(kind, RatiosDef[q], i, ix[j])]]]]]
LossObs == [loss \in {"square", "absolute", "zero_one"} |->
             [kv \in 1..2 |-> [pred |-> PredVec(kv - 1),
                               g01 |-> [g \in 1..G |-> IF g \in GroupsPresent THEN BGLGamma(loss, PredVec(kv - 1), 0, 2, g) ELSE Undef],
                               gwide |-> [g \in 1..G |-> IF g \in GroupsPresent THEN BGLGamma(loss, PredVec(kv - 1), -2, 4, g) ELSE Undef],
                               gmid |-> [g \in 1..G |-> IF g \in GroupsPresent THEN BGLGamma(loss, PredVec(kv - 1), 0, 3, g) ELSE Undef]]]]
ErrObs == [q \in 1..Len(Costs) |-> [costs |-> Costs[q], e0 |-> CostErr(ZeroH, Costs[q][1], Costs[q][2]),
                                     eunit |-> [i \in Rows |-> CostErr(UnitH(i), Costs[q][1], Costs[q][2])],
                                     w |-> [i \in Rows |-> ObjW(i, Costs[q][1], Costs[q][2])]]]
ObsMoments == [rows |-> [i \in Rows |-> <<Gof(rows[i]), Yof(rows[i]), Cof(rows[i]), Fof(rows[i])>>],
               ratios |-> RatiosDef, S |-> S, G |-> G,
               moments |-> [q \in 1..Len(KindSeq) |-> MomentObs(KindSeq[q])],
               loss |-> LossObs, err |-> ErrObs]
\* regression hypotheses for the loss moments: feature value -> prediction in {0, 1/2, 1} (halves 0..2)
RegHyp == [0..(F - 1) -> 0..2]
RegHypSeq == SetToSeq(RegHyp)
RegOf(hy) == [i \in Rows |-> hy[Fof(rows[i])]]
BGLTable == [loss \in {"square", "absolute"} |-> [q \in 1..Len(RegHypSeq) |->
               [g \in 1..G |-> IF g \in GroupsPresent THEN BGLGamma(loss, RegOf(RegHypSeq[q]), 0, 2, g) ELSE Undef]]]
\* payoff table of the whole hypothesis class (C08 / C09)
HypSeq == SetToSeq(Hyp)
TableObs == [rows |-> [i \in Rows |-> <<Gof(rows[i]), Yof(rows[i]), Cof(rows[i]), Fof(rows[i])>>],
             ratios |-> RatiosDef, S |-> S, G |-> G, F |-> F,
             hyps |-> [q \in 1..Len(HypSeq) |-> [f \in 1..F |-> HypSeq[q][f - 1]]],
             err |-> [q \in 1..Len(HypSeq) |-> Err(HofHyp(HypSeq[q]))],
             cost_err |-> [k \in 1..Len(Costs) |-> [costs |-> Costs[k], err |-> [q \in 1..Len(HypSeq) |-> CostErr(HofHyp(HypSeq[q]), Costs[k][1], Costs[k][2])]]],
             reg_hyps |-> [q \in 1..Len(RegHypSeq) |-> [f \in 1..F |-> RegHypSeq[q][f - 1]]],
             bgl |-> BGLTable,
             moments |-> [m \in 1..Len(KindSeq) |->
                 [kind |-> KindSeq[m], index |-> [j \in 1..Len(IdxSeq(KindSeq[m])) |-> Flat(IdxSeq(KindSeq[m])[j])],
                  gamma |-> [rq \in 1..Len(RatiosDef) |-> [q \in 1..Len(HypSeq) |->
                       [j \in 1..Len(IdxSeq(KindSeq[m])) |-> Gamma(KindSeq[m], RatiosDef[rq], HofHyp(HypSeq[q]), IdxSeq(KindSeq[m])[j])]]]]]]
\* usable instances for the reductions: at least two groups and both labels present
Usable == /\ Cardinality(GroupsPresent) >= 2 /\ (\E i \in Rows : Yof(rows[i]) = 1) /\ (\E i \in Rows : Yof(rows[i]) = 0)
EmitInv == (Emit /\ rows # <<>> /\ MyShard) =>
              IF Mode = "table" THEN (Usable => PrintT(ToJson(TableObs)))
              ELSE IF Mode = "table_all" THEN ((Cardinality(GroupsPresent) >= 2) => PrintT(ToJson(TableObs)))      \* also data with a single label value
              ELSE PrintT(ToJson(ObsMoments))
=============================================================================
