----------------------------- MODULE FrameCalls -----------------------------
(* Extension beyond the listed properties: the call protocol of MetricFrame's aggregate methods  *)
(* group_min / group_max / difference / ratio with their `method` and `errors` arguments, for     *)
(* frames that hold scalar metrics, non-scalar metrics (e.g. a confusion matrix) or both.         *)
(*                                                                                                 *)
(* Every answer is computed once when the frame is built and cached, exceptions included          *)
(* (MetricFrame._populate_results); a call only looks the answer up.  Hence the answer to a call   *)
(* is a function of the frame and the call - not of the calls made before (Pure).                  *)
(*   errors not in {raise, coerce}                -> ValueError (checked first)                   *)
(*   method not in {between_groups, to_overall}   -> ValueError                                   *)
(*   a non-scalar metric, errors = raise          -> ValueError for the WHOLE call                *)
(*   a non-scalar metric, errors = coerce         -> NaN in the entries of that metric, the       *)
(*                                                   scalar metrics are answered normally         *)
(* Deviations of the code, modelled as what it does and named:                                    *)
(*   ToOverallDeviation  with method = to_overall a non-scalar metric makes the call raise even   *)
(*                       under errors = coerce (documented: NaN);                                 *)
(*   Mutate              the object a call returns IS the cached answer (no copy): a caller who    *)
(*                       writes into a returned Series changes what later identical calls return.  *)
EXTENDS Integers, Sequences, FiniteSets, TLC, Json

CONSTANTS MaxLen, Emit

Apis == {"group_min", "group_max", "difference", "ratio"}
Methods == {"between_groups", "to_overall", "bogus"}
Errors == {"raise", "coerce", "bogus"}
Calls == {[api |-> a, method |-> "-", errors |-> e] : a \in {"group_min", "group_max"}, e \in Errors}
         \cup {[api |-> a, method |-> m, errors |-> e] : a \in {"difference", "ratio"}, m \in Methods, e \in Errors}
KindSeqs == {<<k>> : k \in {"scalar", "nonscalar"}} \cup {<<k1, k2>> : k1 \in {"scalar", "nonscalar"}, k2 \in {"scalar", "nonscalar"}}

VARIABLES kinds,      \* kind of each metric of the frame
          bare,       \* the metric was given as a bare callable (answers are scalars, not Series)
          control,    \* the frame has a control feature
          hist,       \* calls made so far, with the answers
          tainted     \* cache entries a caller has written into
vars == <<kinds, bare, control, hist, tainted>>

Key(c) == <<c.api, c.method, c.errors>>
HasNonScalar == \E i \in 1..Len(kinds) : kinds[i] = "nonscalar"
ToOverallDeviation(c) == c.method = "to_overall" /\ HasNonScalar
Answer(c) == IF c.errors \notin {"raise", "coerce"} THEN "invalid_errors"
             ELSE IF c.api \in {"difference", "ratio"} /\ c.method \notin {"between_groups", "to_overall"} THEN "invalid_method"
             ELSE IF HasNonScalar /\ (c.errors = "raise" \/ ToOverallDeviation(c)) THEN "nonscalar_error"
             ELSE "value"
NanMask(c) == [i \in 1..Len(kinds) |-> kinds[i] = "nonscalar"]        \* meaningful when Answer(c) = "value"
\* answers that are mutable containers (a Series / DataFrame): everything but the bare-callable, no-control scalar
Mutable(c) == Answer(c) = "value" /\ (~bare \/ control)

Init == /\ kinds \in KindSeqs /\ bare \in BOOLEAN /\ control \in BOOLEAN
        /\ (bare => Len(kinds) = 1)
        /\ hist = <<>> /\ tainted = {}
Call(c) == /\ Len(hist) < MaxLen
           /\ hist' = Append(hist, [call |-> c, answer |-> Answer(c), stale |-> Key(c) \in tainted, op |-> "call"])
           /\ UNCHANGED <<kinds, bare, control, tainted>>
Mutate(c) == /\ Len(hist) < MaxLen - 1 /\ Mutable(c) /\ Key(c) \notin tainted
             /\ hist' = Append(hist, [call |-> c, answer |-> Answer(c), stale |-> FALSE, op |-> "mutate"])
             /\ tainted' = tainted \cup {Key(c)}
             /\ UNCHANGED <<kinds, bare, control>>
Next == \E c \in Calls : Call(c) \/ Mutate(c)
Spec == Init /\ [][Next]_vars

\* ---- laws
\* the answer to a call never depends on the calls made before it
Pure == \A i, j \in 1..Len(hist) : hist[i].call = hist[j].call => hist[i].answer = hist[j].answer
\* only a caller's own write can change what a call returns
StaleOnlyAfterMutate == \A i \in 1..Len(hist) : hist[i].stale =>
                           \E j \in 1..(i - 1) : hist[j].op = "mutate" /\ Key(hist[j].call) = Key(hist[i].call)
\* argument validation has priority and does not depend on the frame
ValidationFirst == \A i \in 1..Len(hist) : hist[i].call.errors = "bogus" => hist[i].answer = "invalid_errors"
\* a frame of scalar metrics answers every well-formed call
ScalarFramesAnswer == (~HasNonScalar) => \A i \in 1..Len(hist) :
                           (hist[i].call.errors # "bogus" /\ hist[i].call.method # "bogus") => hist[i].answer = "value"
\* coerce never raises because of a non-scalar metric - except for the named deviation
CoerceAnswers == \A i \in 1..Len(hist) : LET c == hist[i].call IN
                    (c.errors = "coerce" /\ c.method # "bogus" /\ ~ToOverallDeviation(c)) => hist[i].answer = "value"

Obs == [kinds |-> kinds, bare |-> bare, control |-> control,
        hist |-> [i \in 1..Len(hist) |-> [api |-> hist[i].call.api, method |-> hist[i].call.method, errors |-> hist[i].call.errors,
                                          answer |-> hist[i].answer, stale |-> hist[i].stale, op |-> hist[i].op,
                                          nan |-> IF hist[i].answer = "value" THEN NanMask(hist[i].call) ELSE <<>>]]]
EmitInv == (Emit /\ Len(hist) = MaxLen) => PrintT(ToJson(Obs))
=============================================================================
