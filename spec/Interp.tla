------------------------------- MODULE Interp -------------------------------
(* Extension beyond the listed properties: the public class InterpolatedThresholder used on its   *)
(* own, with a hand-written interpolation_dict, and ThresholdOperation.                            *)
(* A rule for one group:  with probability p0 apply operation0, with probability p1 = 1 - p0        *)
(* apply operation1; optionally, with probability p_ignore, answer prediction_constant instead.     *)
(* An operation is a STRICT comparison of the score with a threshold (">" or "<"); thresholds       *)
(* may be -infinity / +infinity.  Probabilities are numerators over 4.                              *)
(*   positive probability of a row = p_ignore * constant + (1 - p_ignore) * (p0*op0(s) + p1*op1(s)) *)
(* Rows are answered with the rule of THEIR group.  A hard prediction is 1 iff the positive         *)
(* probability is >= a uniform draw from [0, 1).                                                    *)
EXTENDS Integers, Sequences, FiniteSets, TLC, Json

CONSTANTS Emit, NShards, Shard

NEGINF == -1
POSINF == 3
Thresholds == {NEGINF, 0, 1, 2, POSINF}       \* finite thresholds coincide with the score levels: strictness matters
Scores == <<0, 1, 2>>
Ops == {">", "<"}
Ignore == {[on |-> FALSE, p |-> 0, c |-> 0]} \cup {[on |-> TRUE, p |-> p, c |-> c] : p \in {0, 2, 4}, c \in {0, 2, 4}}
Rules == [p0 : 0..4, op0 : Ops, t0 : Thresholds, op1 : Ops, t1 : Thresholds, ig : Ignore]

VARIABLE rule
Init == rule \in Rules
Next == UNCHANGED rule
Spec == Init /\ [][Next]_rule

Apply(op, t, s) == IF op = ">" THEN (IF s > t THEN 1 ELSE 0) ELSE (IF s < t THEN 1 ELSE 0)     \* strict on both sides
\* numerator over 16 of the positive probability
Mix(r, s) == r.p0 * Apply(r.op0, r.t0, s) + (4 - r.p0) * Apply(r.op1, r.t1, s)                 \* over 4
Pos(r, s) == IF r.ig.on THEN r.ig.p * r.ig.c + (4 - r.ig.p) * Mix(r, s) ELSE 4 * Mix(r, s)     \* over 16
Swap(r) == [r EXCEPT !.p0 = 4 - r.p0, !.op0 = r.op1, !.t0 = r.t1, !.op1 = r.op0, !.t1 = r.t0]

\* ---- laws
Valid == \A i \in 1..3 : Pos(rule, Scores[i]) \in 0..16
IgnoreAll == (rule.ig.on /\ rule.ig.p = 4) => \A i \in 1..3 : Pos(rule, Scores[i]) = 4 * rule.ig.c
IgnoreNothing == (rule.ig.on /\ rule.ig.p = 0) => \A i \in 1..3 : Pos(rule, Scores[i]) = 4 * Mix(rule, Scores[i])
SwapInvariant == \A i \in 1..3 : Pos(Swap(rule), Scores[i]) = Pos(rule, Scores[i])
InfiniteThresholds == (rule.p0 = 4 /\ ~rule.ig.on) =>
     \A i \in 1..3 : /\ (rule.op0 = ">" /\ rule.t0 = NEGINF) => Pos(rule, Scores[i]) = 16
                     /\ (rule.op0 = ">" /\ rule.t0 = POSINF) => Pos(rule, Scores[i]) = 0
                     /\ (rule.op0 = "<" /\ rule.t0 = POSINF) => Pos(rule, Scores[i]) = 16
Strict == (rule.p0 = 4 /\ ~rule.ig.on /\ rule.t0 \in 0..2) => Pos(rule, rule.t0) = 0           \* a score equal to the threshold is on neither side

Obs == [p0 |-> rule.p0, op0 |-> rule.op0, t0 |-> rule.t0, op1 |-> rule.op1, t1 |-> rule.t1,
        ig_on |-> rule.ig.on, ig_p |-> rule.ig.p, ig_c |-> rule.ig.c, pos16 |-> [i \in 1..3 |-> Pos(rule, Scores[i])]]
MyShard == (rule.p0 + 5 * (rule.t0 + 1) + 3 * (rule.t1 + 1) + rule.ig.p + rule.ig.c) % NShards = Shard
EmitInv == (Emit /\ MyShard) => PrintT(ToJson(Obs))
=============================================================================
