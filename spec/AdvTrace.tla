------------------------------ MODULE AdvTrace ------------------------------
(* Validation of recorded adversarial fit executions (larger, seeded geometries) against         *)
(* AdvSchedule.tla.  Events: step(lo, hi, n_iter), cb(step, k) - one event per callback call -,   *)
(* end(n_iter).  A trace is accepted iff TLC prints <<"ACCEPT", tid>>.                           *)
EXTENDS AdvSchedule, IOUtils, TLCExt

Traces == JsonDeserialize(IOEnv.TRACE_FILE)
VARIABLES tid, l, cbSeen        \* cbSeen: callbacks of the current step already matched
tvars == <<vars, tid, l, cbSeen>>

Ev == Traces[tid].events
TInit == /\ tid \in 1..Len(Traces) /\ l = 1 /\ cbSeen = 0
         /\ cfg = Traces[tid].cfg
         /\ InitRest

IsEvent(name) == l <= Len(Ev) /\ Ev[l].ev = name /\ l' = l + 1 /\ tid' = tid

TStep == /\ IsEvent("step") /\ cbSeen = 0
         /\ TrainStep
         /\ Ev[l].lo = Lo /\ Ev[l].hi = Hi /\ Ev[l].n_iter = nIter + 1
         /\ cbSeen' = 0
\* the k callback events of one step are consumed one by one; the spec's Callback action fires with the last
TCbPart == /\ IsEvent("cb") /\ phase = "callback" /\ cbSeen + 1 < cfg.k
           /\ Ev[l].step = nIter /\ Ev[l].k = cbSeen + 1
           /\ Ev[l].stop = (cfg.stop = nIter /\ cfg.who = cbSeen + 1)
           /\ cbSeen' = cbSeen + 1 /\ UNCHANGED vars
TCbLast == /\ IsEvent("cb") /\ cbSeen + 1 = cfg.k
           /\ Ev[l].step = nIter /\ Ev[l].k = cfg.k
           /\ Ev[l].stop = (cfg.stop = nIter /\ cfg.who = cfg.k)
           /\ Callback
           /\ cbSeen' = 0
TEnd  == /\ IsEvent("end") /\ cbSeen = 0
         /\ phase = "done"
         /\ Ev[l].n_iter = nIter
         /\ PrintT(<<"ACCEPT", tid>>)
         /\ cbSeen' = 0 /\ UNCHANGED vars
TNext == TStep \/ TCbPart \/ TCbLast \/ TEnd
TSpec == TInit /\ [][TNext]_tvars
Diag == PrintT(<<"AT", tid, l>>)
=============================================================================
