------------------------------ MODULE AdvTrace ------------------------------
(* Validation of recorded adversarial fit executions (larger, seeded geometries) against         *)
(* AdvSchedule.tla.  Events: step(lo, hi, n_iter), cb(step, k) - one event per callback call -,   *)
(* end(n_iter).  A trace is accepted iff TLC prints <<"ACCEPT", tid>>.                           *)
EXTENDS AdvSchedule, IOUtils, TLCExt

Traces == JsonDeserialize(IOEnv.TRACE_FILE)
VARIABLES tid, l, cbSeen,       \* cbSeen: callbacks of the current step already matched
          seen                  \* (shuffle = TRUE, extension) row ids already used in the current epoch
tvars == <<vars, tid, l, cbSeen, seen>>

Ev == Traces[tid].events
TInit == /\ tid \in 1..Len(Traces) /\ l = 1 /\ cbSeen = 0 /\ seen = {}
         /\ cfg = Traces[tid].cfg
         /\ InitRest

IsEvent(name) == l <= Len(Ev) /\ Ev[l].ev = name /\ l' = l + 1 /\ tid' = tid

\* without shuffling the step trains on rows Lo..Hi-1; with shuffle = TRUE (extension beyond C17) it trains on Hi - Lo
\* rows that were not used before in this epoch, so that every epoch uses every row exactly once
Shuffled == Traces[tid].shuffle
IdSet(e) == {e.ids[i] : i \in 1..Len(e.ids)}
TStep == /\ IsEvent("step") /\ cbSeen = 0
         /\ TrainStep
         /\ Ev[l].n_iter = nIter + 1
         /\ IF Shuffled
            THEN /\ Len(Ev[l].ids) = Hi - Lo /\ Cardinality(IdSet(Ev[l])) = Hi - Lo
                 /\ IdSet(Ev[l]) \subseteq 0..(cfg.n - 1) /\ IdSet(Ev[l]) \cap seen = {}
                 /\ seen' = IF Hi = cfg.n THEN {} ELSE seen \cup IdSet(Ev[l])
            ELSE /\ Ev[l].lo = Lo /\ Ev[l].hi = Hi /\ seen' = seen
         /\ cbSeen' = 0
\* the k callback events of one step are consumed one by one; the spec's Callback action fires with the last
TCbPart == /\ IsEvent("cb") /\ phase = "callback" /\ cbSeen + 1 < cfg.k
           /\ Ev[l].step = nIter /\ Ev[l].k = cbSeen + 1
           /\ Ev[l].stop = (cfg.stop = nIter /\ cfg.who = cbSeen + 1)
           /\ cbSeen' = cbSeen + 1 /\ UNCHANGED <<vars, seen>>
TCbLast == /\ IsEvent("cb") /\ cbSeen + 1 = cfg.k
           /\ Ev[l].step = nIter /\ Ev[l].k = cfg.k
           /\ Ev[l].stop = (cfg.stop = nIter /\ cfg.who = cfg.k)
           /\ Callback
           /\ cbSeen' = 0 /\ seen' = seen
TEnd  == /\ IsEvent("end") /\ cbSeen = 0
         /\ phase = "done"
         /\ Ev[l].n_iter = nIter
         /\ PrintT(<<"ACCEPT", tid>>)
         /\ cbSeen' = 0 /\ UNCHANGED <<vars, seen>>
TNext == TStep \/ TCbPart \/ TCbLast \/ TEnd
TSpec == TInit /\ [][TNext]_tvars
Diag == PrintT(<<"AT", tid, l>>)
=============================================================================
