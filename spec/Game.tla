------------------------------- MODULE Game -------------------------------
(* The saddle-point certificate of ExponentiatedGradient on abstract finite games (C08).       *)
(*   hypotheses h in 1..NH with error e[h] and constraint slacks c[h][j] = gamma_j(h) - bound_j *)
(*   Q  a distribution over hypotheses (weights q[h]/D),  lam a multiplier vector, |lam|_1 <= B *)
(*   L(Q, lam) = err(Q) + lam . c(Q)                                                            *)
(* The certificate, exactly as the code computes it:                                            *)
(*   gap = max( L(Q,lam) - min_h L(h,lam) ,  err(Q) + B * max(0, max_j c_j(Q)) - L(Q,lam) )     *)
(* Theorem checked by TLC on every game of the bounded family: for g = gap,                      *)
(*   err(Q) <= err(Q') + 2g  for every distribution Q' meeting all constraints, and, when such  *)
(*   a Q' exists, max_j c_j(Q) <= (1 + 2g) / B.                                                 *)
(* Everything is integer arithmetic: errors and slacks are numerators over U, Q over D, so a    *)
(* quantity X of the mathematics is represented by X * U * D.                                   *)
EXTENDS Integers, FiniteSets, Sequences, TLC

CONSTANTS NH, NK, D, B, U, CMax
ENums == 0..U                 \* errors in [0, 1]
CNums == (-CMax)..CMax        \* constraint slacks in [-CMax/U, CMax/U]

VARIABLES e, c, q, lam
vars == <<e, c, q, lam>>

Hs == 1..NH
Ks == 1..NK
SumF(f(_), S) == LET RECURSIVE Sm(_)
                     Sm(T) == IF T = {} THEN 0 ELSE LET x == CHOOSE y \in T : TRUE IN f(x) + Sm(T \ {x})
                 IN Sm(S)
Dists == {w \in [Hs -> 0..D] : SumF(LAMBDA h : w[h], Hs) = D}
Lams == {m \in [Ks -> 0..B] : SumF(LAMBDA j : m[j], Ks) <= B}

Init == /\ e \in [Hs -> ENums] /\ c \in [Hs -> [Ks -> CNums]] /\ q \in Dists /\ lam \in Lams
Next == UNCHANGED vars
Spec == Init /\ [][Next]_vars

\* scaled by U*D
Pay(h, m) == e[h] + SumF(LAMBDA j : m[j] * c[h][j], Ks)             \* U * L(h, m)
ErrOf(w) == SumF(LAMBDA h : w[h] * e[h], Hs)                          \* U*D * err(w)
SlackOf(w, j) == SumF(LAMBDA h : w[h] * c[h][j], Hs)                  \* U*D * c_j(w)
LOf(w, m) == SumF(LAMBDA h : w[h] * Pay(h, m), Hs)                    \* U*D * L(w, m)
MaxOf(S) == CHOOSE x \in S : \A y \in S : y <= x
MinOf(S) == CHOOSE x \in S : \A y \in S : x <= y
MaxSlack(w) == MaxOf({SlackOf(w, j) : j \in Ks})
LLow(m) == MinOf({D * Pay(h, m) : h \in Hs})                           \* min_h L(h, m)
LHigh(w) == ErrOf(w) + B * (IF MaxSlack(w) > 0 THEN MaxSlack(w) ELSE 0)
Gap(w, m) == MaxOf({LOf(w, m) - LLow(m), LHigh(w) - LOf(w, m)})
Feasible(w) == \A j \in Ks : SlackOf(w, j) <= 0

\* best responses to the multiples of lam used by eval_gap; the multiple 1 alone already attains the minimum
BR(m) == {h \in Hs : \A h2 \in Hs : Pay(h, m) <= Pay(h2, m)}
Mul(k, m) == [j \in Ks |-> k * m[j]]
CodeLLowIsTrueMin == \A h \in BR(Mul(1, lam)) : D * Pay(h, lam) = LLow(lam)
GapNonNegative == Gap(q, lam) >= 0
\* the two guarantees
ErrorGuarantee == \A w \in Dists : Feasible(w) => ErrOf(q) <= ErrOf(w) + 2 * Gap(q, lam)
ViolationGuarantee == (\E w \in Dists : Feasible(w)) => B * MaxSlack(q) <= U * D + 2 * Gap(q, lam)
=============================================================================
