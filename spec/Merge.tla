------------------------------- MODULE Merge -------------------------------
(* Merging several sensitive / control feature columns into one group key (C13).               *)
(* Strings are sequences over a small alphabet that contains the separator "," and the escape   *)
(* character "\" (written "b" for backslash and "c" for comma inside this module, plus the      *)
(* ordinary characters "a" and "1").  Merge escapes every value (backslash -> 2 backslashes,     *)
(* comma -> backslash comma) and joins with commas.  Unmerge is its left inverse, hence Merge   *)
(* is injective and grouping by merged key = grouping by tuple equality.                        *)
EXTENDS Integers, Sequences, FiniteSets, TLC, Json, SequencesExt

CONSTANTS MaxLen, NCols, Emit

BS == "b"       \* stands for the backslash
CM == "c"       \* stands for the comma
Alphabet == {BS, CM, "a", "1"}
Strings == UNION {[1..k -> Alphabet] : k \in 0..MaxLen}
Tuples == [1..NCols -> Strings]

RECURSIVE Escape(_)
Escape(s) == IF s = <<>> THEN <<>>
             ELSE (IF s[1] = BS THEN <<BS, BS>> ELSE IF s[1] = CM THEN <<BS, CM>> ELSE <<s[1]>>) \o Escape(Tail(s))
RECURSIVE JoinFrom(_, _)
JoinFrom(t, k) == IF k > Len(t) THEN <<>> ELSE (IF k > 1 THEN <<CM>> ELSE <<>>) \o Escape(t[k]) \o JoinFrom(t, k + 1)
Merge(t) == JoinFrom(t, 1)
\* the two wrong ways: no escaping at all; separator escaped but not the escape character itself
RECURSIVE NaiveFrom(_, _)
NaiveFrom(t, k) == IF k > Len(t) THEN <<>> ELSE (IF k > 1 THEN <<CM>> ELSE <<>>) \o t[k] \o NaiveFrom(t, k + 1)
NaiveMerge(t) == NaiveFrom(t, 1)
RECURSIVE HalfEscape(_)
HalfEscape(s) == IF s = <<>> THEN <<>> ELSE (IF s[1] = CM THEN <<BS, CM>> ELSE <<s[1]>>) \o HalfEscape(Tail(s))
RECURSIVE HalfFrom(_, _)
HalfFrom(t, k) == IF k > Len(t) THEN <<>> ELSE (IF k > 1 THEN <<CM>> ELSE <<>>) \o HalfEscape(t[k]) \o HalfFrom(t, k + 1)
HalfMerge(t) == HalfFrom(t, 1)

\* Unmerge: scan; backslash takes the next character literally; an unescaped comma starts a new field
RECURSIVE Scan(_, _, _)
Scan(s, cur, acc) == IF s = <<>> THEN Append(acc, cur)
                     ELSE IF s[1] = BS /\ Len(s) >= 2 THEN Scan(SubSeq(s, 3, Len(s)), Append(cur, s[2]), acc)
                     ELSE IF s[1] = CM THEN Scan(Tail(s), <<>>, Append(acc, cur))
                     ELSE Scan(Tail(s), Append(cur, s[1]), acc)
Unmerge(s) == Scan(s, <<>>, <<>>)

VARIABLE tup
Init == tup \in Tuples
Next == UNCHANGED tup
Spec == Init /\ [][Next]_tup

RoundTrip == Unmerge(Merge(tup)) = tup
\* witnesses that the escaping matters: another tuple with the same naive / half-escaped join
NaiveTwin == {u \in Tuples : u # tup /\ NaiveMerge(u) = NaiveMerge(tup)}
HalfTwin == {u \in Tuples : u # tup /\ HalfMerge(u) = HalfMerge(tup)}
Injective == \A u \in Tuples : u # tup => Merge(u) # Merge(tup)

Obs == [tuple |-> tup, merged |-> Merge(tup),
        naive_twin |-> IF NaiveTwin = {} THEN <<>> ELSE <<CHOOSE u \in NaiveTwin : TRUE>>,
        half_twin |-> IF HalfTwin = {} THEN <<>> ELSE <<CHOOSE u \in HalfTwin : TRUE>>]
EmitInv == Emit => PrintT(ToJson(Obs))
=============================================================================
