------------------------------ MODULE BootTrace ------------------------------
(* Validation of recorded bootstrap executions of MetricFrame (C18) against Bootstrap.tla.       *)
(* A recording metric logs the multiset of row ids of every call.  One trace =                    *)
(*   [n, n_boot, group (key of each row id), levels (quantile levels, numerators over 8),         *)
(*    calls (sequence of id sequences), ci (reported by_group count quantiles * 8, per level       *)
(*    and group key), overall_ci (reported overall count quantiles * 8 per level and stratum)]     *)
(* Checked: the call stream is cut into passes of exactly n rows: point estimate (overall pass,   *)
(* by-group pass) and per resample an overall pass and a by-group pass; every resample has        *)
(* exactly n ids from the data; the by-group calls of a resample partition exactly the multiset   *)
(* of its overall pass and each call holds rows of ONE group; there are exactly n_boot            *)
(* resamples; the reported quantiles of `count` equal the specification's quantiles of the        *)
(* per-resample group sizes.                                                                      *)
EXTENDS Bootstrap, Json, IOUtils, TLCExt, Bags, FiniteSets

Traces == JsonDeserialize(IOEnv.TRACE_FILE)
VARIABLES tid, pos, pass, acc, sizes, bags
\* pos: next call; pass: number of completed passes; acc: bag of ids seen in the current pass;
\* sizes: per completed resample, the function group key -> number of rows
\* bags: the multiset of row ids of every completed resample
tvars == <<vals, tid, pos, pass, acc, sizes, bags>>

T == Traces[tid]
Calls == T.calls
BagOfSeq(s) == LET RECURSIVE Bg(_) Bg(i) == IF i = 0 THEN EmptyBag ELSE Bg(i - 1) (+) SetToBag({s[i]}) IN Bg(Len(s))
TInit == /\ tid \in 1..Len(Traces) /\ pos = 1 /\ pass = 0 /\ acc = EmptyBag /\ sizes = <<>> /\ bags = <<>> /\ vals = <<0>>

Keys == {T.group[i] : i \in 1..T.n}
OneGroup(c) == \A i, j \in 1..Len(c) : T.group[c[i] + 1] = T.group[c[j] + 1]
OneStratum(c) == \A i, j \in 1..Len(c) : T.stratum[c[i] + 1] = T.stratum[c[j] + 1]
InData(c) == \A i \in 1..Len(c) : c[i] \in 0..(T.n - 1)
GroupSizes(b) == [k \in Keys |-> BagCardinality([x \in {y \in BagToSet(b) : T.group[y + 1] = k} |-> b[x]])]

\* consume one call; a pass closes exactly when it reaches n rows (never beyond)
TCall == /\ pos <= Len(Calls)
         /\ LET c == Calls[pos]
                nb == acc (+) BagOfSeq(c)
                byGroupPass == pass % 2 = 1
            IN /\ InData(c) /\ Len(c) >= 1
               /\ IF byGroupPass THEN OneGroup(c) ELSE OneStratum(c)
               /\ BagCardinality(nb) <= T.n                                 \* a call never straddles a pass boundary
               /\ IF BagCardinality(nb) = T.n
                  THEN /\ pass' = pass + 1 /\ acc' = EmptyBag
                       \* the point estimate sees every row exactly once
                       /\ pass < 2 => nb = SetToBag(0..(T.n - 1))
                       \* the by-group pass of a resample partitions the multiset of its overall pass
                       /\ IF pass >= 2 /\ byGroupPass
                          THEN GroupSizes(nb) = sizes[Len(sizes)]
                          ELSE TRUE
                       /\ sizes' = IF pass >= 2 /\ ~byGroupPass THEN Append(sizes, GroupSizes(nb)) ELSE sizes
                       /\ bags' = IF pass >= 2 /\ ~byGroupPass THEN Append(bags, nb) ELSE bags
                  ELSE pass' = pass /\ acc' = nb /\ sizes' = sizes /\ bags' = bags
         /\ pos' = pos + 1 /\ UNCHANGED <<vals, tid>>

\* reported quantiles of `count` per group: groups absent from a resample are skipped (nanquantile)
SortedSizes(k) == SortSeq(SelectSeq([b \in 1..Len(sizes) |-> sizes[b][k]], LAMBDA v : v > 0), <)
CiOK == \A q \in 1..Len(T.levels) : \A j \in 1..Len(T.ci[q]) :
           LET k == T.ci[q][j].key
           IN k \in Keys /\ SortedSizes(k) # <<>> /\ Quantile(SortedSizes(k), T.levels[q]) = Frac(T.ci[q][j].v8, 8)
ReportedKeys == \A q \in 1..Len(T.levels) : {T.ci[q][j].key : j \in 1..Len(T.ci[q])} = {k \in Keys : SortedSizes(k) # <<>>}
TAccept == /\ pos = Len(Calls) + 1 /\ acc = EmptyBag
           /\ pass = 2 * (1 + T.n_boot)                                      \* exactly n_boot resamples
           /\ Len(sizes) = T.n_boot
           /\ CiOK /\ ReportedKeys
           \* drawn WITH replacement and with a fresh seed per resample: for n >= 6 and n_boot >= 3 it is (overwhelmingly)
           \* impossible that no resample repeats a row or that all resamples coincide
           /\ (T.n >= 6 /\ T.n_boot >= 3) => /\ \E b \in 1..Len(bags) : \E x \in BagToSet(bags[b]) : bags[b][x] >= 2
                                              /\ \E b1, b2 \in 1..Len(bags) : bags[b1] # bags[b2]
           /\ PrintT(<<"ACCEPT", tid>>)
           /\ pos' = pos + 1 /\ UNCHANGED <<vals, tid, pass, acc, sizes, bags>>
TNext == TCall \/ TAccept
TSpec == TInit /\ [][TNext]_tvars
Diag == PrintT(<<"AT", tid, pos>>)
=============================================================================
