------------------------------ MODULE Lifecycle ------------------------------
(* Estimator life cycle (C19): fit depends on parameters and data, not on call history.         *)
(* Abstract state of one estimator object:                                                        *)
(*    params  - the constructor parameters (never change)                                         *)
(*    model   - None (unfitted) or the id of the data set the model was fitted on               *)
(* Actions: Fit(d) (model' = d whatever the previous state; returns the estimator itself),         *)
(* Predict(s) (state unchanged; the answer is a function of (model, s); on "none" it raises        *)
(* NotFittedError), Pickle (round trip preserves params and model; offered by the picklable        *)
(* kinds), Clone (same params, unfitted).                                                         *)
EXTENDS Integers, Sequences, FiniteSets, TLC, Json

CONSTANTS MaxLen, Emit

Kinds == {"TO", "EG", "GS", "CR", "ADVC", "ADVR"}
Picklable == {"TO", "EG", "GS", "CR"}
Data == {1, 2}
None == 0                       \* the unfitted state
Seeds == {1, 2}

VARIABLES kind, params, model, hist
vars == <<kind, params, model, hist>>

Init == /\ kind \in Kinds /\ params = "p0" /\ model = None /\ hist = <<>>
Fit(d)     == /\ Len(hist) < MaxLen /\ model' = d /\ hist' = Append(hist, <<"fit", d>>) /\ UNCHANGED <<kind, params>>
Predict(s) == /\ Len(hist) < MaxLen /\ hist' = Append(hist, <<"predict", s>>) /\ UNCHANGED <<kind, params, model>>
Pickle     == /\ Len(hist) < MaxLen /\ kind \in Picklable /\ hist' = Append(hist, <<"pickle", 0>>) /\ UNCHANGED <<kind, params, model>>
Clone      == /\ Len(hist) < MaxLen /\ model' = None /\ hist' = Append(hist, <<"clone", 0>>) /\ UNCHANGED <<kind, params>>
Next == (\E d \in Data : Fit(d)) \/ (\E s \in Seeds : Predict(s)) \/ Pickle \/ Clone
Spec == Init /\ [][Next]_vars

\* the model after a history is determined by the LAST fit that is not followed by a clone
RECURSIVE ModelOf(_)
ModelOf(h) == IF h = <<>> THEN None
              ELSE LET e == h[Len(h)] IN
                   IF e[1] = "fit" THEN e[2] ELSE IF e[1] = "clone" THEN None ELSE ModelOf(SubSeq(h, 1, Len(h) - 1))
HistoryIndependent == model = ModelOf(hist)
ParamsFixed == params = "p0"
ParamsNeverChange == [][params' = params]_vars
PredictPure == [][(\E s \in Seeds : hist' = Append(hist, <<"predict", s>>)) => model' = model]_vars

Obs == [kind |-> kind, hist |-> hist, model |-> model]
EmitInv == (Emit /\ Len(hist) = MaxLen) => PrintT(ToJson(Obs))
=============================================================================
