----------------------------- MODULE AdvPredict -----------------------------
(* predict of the adversarial estimators stays in label space (C17, second clause).             *)
(* The training label set is sorted; for binary targets the positive class is the larger one.   *)
(* Raw predictor outputs are on the grid {0, 1/4, 1/2, 3/4, 1} (numerators over 4).              *)
(*   binary     : positive class  iff  raw >= 1/2                                                *)
(*   multiclass : the arg-max class (first maximum)                                              *)
(*   continuous : the raw output itself                                                          *)
EXTENDS Integers, Sequences, FiniteSets, TLC, Json

CONSTANTS Emit
VARIABLES kind, raw
vars == <<kind, raw>>
Q == 0..4
Init == \/ kind = "binary" /\ raw \in [1..1 -> Q]
        \/ kind = "multiclass" /\ raw \in [1..3 -> Q]
        \/ kind = "continuous" /\ raw \in [1..1 -> Q]
Next == UNCHANGED vars
Spec == Init /\ [][Next]_vars

\* index (1-based, into the sorted training label set) of the predicted class; 0 for regression
ArgMaxFirst(v) == CHOOSE i \in 1..Len(v) : (\A j \in 1..Len(v) : v[j] <= v[i]) /\ (\A j \in 1..(i - 1) : v[j] < v[i])
ClassIdx == CASE kind = "binary" -> IF 2 * raw[1] >= 4 THEN 2 ELSE 1
              [] kind = "multiclass" -> ArgMaxFirst(raw)
              [] kind = "continuous" -> 0
InLabelSpace == kind = "binary" => ClassIdx \in 1..2
ThresholdIsInclusive == (kind = "binary" /\ raw[1] = 2) => ClassIdx = 2
ArgMaxIsMax == kind = "multiclass" => \A j \in 1..3 : raw[j] <= raw[ClassIdx]
Obs == [kind |-> kind, raw |-> raw, idx |-> ClassIdx]
EmitInv == Emit => PrintT(ToJson(Obs))
=============================================================================
