------------------------------ MODULE BootArgs ------------------------------
(* Extension beyond the listed properties: which (n_boot, ci_quantiles) arguments of MetricFrame  *)
(* switch bootstrapping on, which are rejected, and what the *_ci accessors answer afterwards.    *)
(*   both given (quantile list non-empty)   -> n_boot must be an int >= 1, every quantile a float *)
(*                                             strictly between 0 and 1; else REJECTED; then ON   *)
(*   exactly one given                      -> REJECTED ("must specify both")                     *)
(*   neither (an empty list counts as none) -> OFF: the frame works, every *_ci accessor raises   *)
(* ON: every *_ci accessor returns a list with one entry per requested quantile, in the order of  *)
(* the request.  Deviation of the code named as such (BoolIsInt): n_boot = True passes the int     *)
(* test of the validation and the construction then dies with a TypeError inside the seeding of    *)
(* the resamples (outcome "bool_crash") instead of being rejected as "not a positive integer".     *)
EXTENDS Integers, Sequences, FiniteSets, TLC, Json

CONSTANTS Emit

NBoots == {"none", "0", "-1", "1", "5", "2.5", "True"}
Quants == {"none", "[]", "[0.5]", "[0.9,0.1]", "[0.0]", "[1.0]", "[1]", "[0.5,1.5]"}
Apis == {"overall_ci", "by_group_ci", "group_min_ci", "group_max_ci", "difference_ci", "ratio_ci"}
VARIABLES nb, qs, state, hist
vars == <<nb, qs, state, hist>>

NBGiven == nb # "none"
QSGiven == qs \notin {"none", "[]"}
NBValid == nb \in {"1", "5", "True"}                         \* BoolIsInt: True passes the validation
QSValid == qs \in {"[0.5]", "[0.9,0.1]"}
NQuant == CASE qs = "[0.5]" -> 1 [] qs = "[0.9,0.1]" -> 2 [] OTHER -> 0
Construction == IF NBGiven /\ QSGiven THEN (IF ~NBValid THEN "bad_n_boot" ELSE IF ~QSValid THEN "bad_quantile" ELSE IF nb = "True" THEN "bool_crash" ELSE "on")
                ELSE IF NBGiven # QSGiven THEN "need_both" ELSE "off"

Init == nb \in NBoots /\ qs \in Quants /\ state = "new" /\ hist = <<>>
Construct == /\ state = "new" /\ state' = Construction
             /\ hist' = Append(hist, [op |-> "construct", answer |-> Construction, len |-> 0]) /\ UNCHANGED <<nb, qs>>
Access(a) == /\ state \in {"on", "off"} /\ Len(hist) < 3
             /\ hist' = Append(hist, [op |-> a, answer |-> IF state = "on" THEN "list" ELSE "not_initialised", len |-> IF state = "on" THEN NQuant ELSE 0])
             /\ UNCHANGED <<nb, qs, state>>
Next == Construct \/ \E a \in Apis : Access(a)
Spec == Init /\ [][Next]_vars

\* ---- laws
OnNeedsBoth == state = "on" => NBGiven /\ QSGiven /\ NBValid /\ QSValid /\ nb # "True"
OffMeansNothingAsked == state = "off" => ~NBGiven /\ ~QSGiven
RejectedIsFinal == state \in {"bad_n_boot", "bad_quantile", "need_both", "bool_crash"} => Len(hist) = 1
OneEntryPerQuantile == \A i \in 1..Len(hist) : hist[i].answer = "list" => hist[i].len = NQuant /\ NQuant >= 1

Obs == [nb |-> nb, qs |-> qs, hist |-> hist]
EmitInv == (Emit /\ state # "new" /\ (Len(hist) = 3 \/ state \notin {"on", "off"})) => PrintT(ToJson(Obs))
=============================================================================
