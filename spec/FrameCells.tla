--------------------------- MODULE FrameCells ---------------------------
(* MetricFrame disaggregation (C01), independent of any particular metric: a cell of          *)
(* by_group is specified through the SET OF ROW POSITIONS it must be evaluated on.            *)
(* Layout: NC control features followed by NS sensitive features, V values each.              *)
(*   by_group index = observed values (one feature) or the Cartesian product of the observed  *)
(*   values of every feature (several features); a combination without rows is an empty cell  *)
(*   (reported as NaN, neither dropped nor filled);                                           *)
(*   overall = all rows (no control feature) or the rows of each control combination.         *)
EXTENDS Integers, Sequences, FiniteSets, TLC, Json, FiniteSetsExt, SequencesExt

CONSTANTS N, NS, NC, V, Emit, NShards, Shard

NF == NS + NC
RECURSIVE Pow(_, _)
Pow(b, e) == IF e = 0 THEN 1 ELSE b * Pow(b, e - 1)
NT == Pow(V, NF)
\* value (0..V-1) of feature k (1..NF; control features first) in row type t
Fv(t, k) == (t \div Pow(V, k - 1)) % V

VARIABLE rows
vars == <<rows>>
Init == rows = <<>>
AddRow(t) == /\ Len(rows) < N
             /\ IF rows = <<>> THEN t % NShards = Shard ELSE rows[Len(rows)] <= t
             /\ rows' = Append(rows, t)
Next == \E t \in 0..(NT - 1) : AddRow(t)
NextSim == \E t \in 0..(NT - 1) : Len(rows) < N /\ rows' = Append(rows, t)
Spec == Init /\ [][Next]_vars

All == 1..Len(rows)
Observed(k) == {Fv(rows[i], k) : i \in All}
\* keys are sequences of length NF (resp. NC) of feature values
Keys(lo, hi) == {key \in [lo..hi -> 0..(V - 1)] : \A k \in lo..hi : key[k] \in Observed(k)}
Index == Keys(1, NF)                       \* by_group index: product of observed values
ControlIndex == Keys(1, NC)                \* overall index (a single empty key when NC = 0)
Cell(key) == {i \in All : \A k \in 1..NF : Fv(rows[i], k) = key[k]}
OverallRows(ckey) == {i \in All : \A k \in 1..NC : Fv(rows[i], k) = ckey[k]}

\* ---- laws ------------------------------------------------------------------------------------
Prod(f(_), lo, hi) == LET RECURSIVE P(_)
                          P(k) == IF k > hi THEN 1 ELSE f(k) * P(k + 1)
                      IN P(lo)
LawIndexSize == rows # <<>> => Cardinality(Index) = Prod(LAMBDA k : Cardinality(Observed(k)), 1, NF)
LawPartition == rows # <<>> =>
    /\ UNION {Cell(key) : key \in Index} = All
    /\ \A a, b \in Index : a # b => Cell(a) \cap Cell(b) = {}
    /\ \A ck \in ControlIndex :
          UNION {Cell(key) : key \in {x \in Index : \A k \in 1..NC : x[k] = ck[k]}} = OverallRows(ck)
\* with a single feature no cell is empty (nothing to fill); with several, empty cells are reachable
LawSingleFeature == (rows # <<>> /\ NF = 1) => \A key \in Index : Cell(key) # {}
HasEmptyCell == \E key \in Index : Cell(key) = {}
HasSingleton == \E key \in Index : Cardinality(Cell(key)) = 1

\* ---- emission --------------------------------------------------------------------------------
KeySeq(key, lo, hi) == [k \in 1..(hi - lo + 1) |-> key[lo + k - 1]]
IndexSeq == SetToSeq(Index)
CIndexSeq == SetToSeq(ControlIndex)
Obs == [ns |-> NS, nc |-> NC,
        rows |-> [i \in All |-> [k \in 1..NF |-> Fv(rows[i], k)]],
        cells |-> [j \in 1..Len(IndexSeq) |-> [key |-> KeySeq(IndexSeq[j], 1, NF), rows |-> SetToSortSeq(Cell(IndexSeq[j]), <)]],
        overall |-> [j \in 1..Len(CIndexSeq) |-> [key |-> KeySeq(CIndexSeq[j], 1, NC), rows |-> SetToSortSeq(OverallRows(CIndexSeq[j]), <)]],
        empty_cell |-> HasEmptyCell, singleton |-> HasSingleton]
EmitInv == (Emit /\ rows # <<>>) => PrintT(ToJson(Obs))
=============================================================================
