------------------------------- MODULE EGInd --------------------------------
(* Unbounded version of the termination / certification clauses of EG.tla (C08) for Apalache:   *)
(* the same stop rule with the gap history abstracted to (last gap, minimum gap, "an earlier      *)
(* iteration already satisfied the stop test"), for ALL max_iter >= 1, thresholds nu and gap      *)
(* values (integers stand for the reals: the protocol only compares them).                        *)
EXTENDS Integers

VARIABLES
  \* @type: Int;
  maxIter,
  \* @type: Int;
  minIter,
  \* @type: Int;
  nu,
  \* @type: Int;
  t,
  \* @type: Int;
  lastGap,
  \* @type: Int;
  minGap,
  \* @type: Bool;
  cert,
  \* @type: Int;
  bestGap,
  \* @type: Str;
  phase

Params == maxIter >= 1 /\ minIter >= 0

Init == /\ maxIter \in Int /\ minIter \in Int /\ nu \in Int /\ Params
        /\ t = 0 /\ lastGap = 0 /\ minGap = 0 /\ cert = FALSE /\ bestGap = 0 /\ phase = "iter"

\* one complete iteration (oracle calls abstracted away) with gap g = min(gap_EG, gap_LP)
Iter == \E g \in Int :
          /\ phase = "iter"
          /\ lastGap' = g
          /\ minGap' = IF t = 0 \/ g < minGap THEN g ELSE minGap
          /\ cert' = (cert \/ (g < nu /\ t >= minIter))
          /\ phase' = IF (g < nu /\ t >= minIter) \/ t + 1 = maxIter THEN "select" ELSE "iter"
          /\ t' = t + 1
          /\ UNCHANGED <<maxIter, minIter, nu, bestGap>>

\* the returned iterate has a gap within precision of the minimum: between minGap and some thr >= minGap;
\* best_gap_ is the gap of that iterate
Select == \E b \in Int :
            /\ phase = "select"
            /\ b >= minGap
            /\ bestGap' = b
            /\ phase' = "done"
            /\ UNCHANGED <<maxIter, minIter, nu, t, lastGap, minGap, cert>>

Next == Iter \/ Select

EarlyStopCertified == (phase \in {"select", "done"} /\ t < maxIter) => (lastGap < nu /\ t - 1 >= minIter)
NoOverrun == phase = "iter" => (t < maxIter /\ ~cert)
MinBelowLast == t >= 1 => minGap <= lastGap
\* the minimum gap is below nu whenever the run stopped early (hence an iterate with gap < nu exists and is within
\* precision of the returned one)
MinGapCertified == (phase \in {"select", "done"} /\ t < maxIter) => minGap < nu

IndInv == /\ Params /\ phase \in {"iter", "select", "done"} /\ t >= 0 /\ t <= maxIter
          /\ (phase \in {"select", "done"} => t >= 1)
          /\ EarlyStopCertified /\ NoOverrun /\ MinBelowLast /\ MinGapCertified
          /\ (phase = "done" => bestGap >= minGap)

IndInit == /\ maxIter \in Int /\ minIter \in Int /\ nu \in Int /\ t \in Int /\ lastGap \in Int /\ minGap \in Int
           /\ cert \in BOOLEAN /\ bestGap \in Int /\ phase \in {"iter", "select", "done"}
           /\ IndInv
=============================================================================
