------------------------------ MODULE Bootstrap ------------------------------
(* Bootstrap confidence intervals of MetricFrame (C18).                                         *)
(* A resample is a multiset of n row ids drawn with replacement from the n data rows; for every  *)
(* resample the whole frame (overall, by_group, aggregates) is recomputed; *_ci[k] is the        *)
(* element-wise quantile (numpy "linear" interpolation) at level Q[k] over the resamples in      *)
(* which the entry is defined.  This module fixes the quantile and checks its laws on every      *)
(* sequence of resample statistics up to a bound; BootTrace.tla validates recorded resamples.    *)
EXTENDS Rat, TLC, SequencesExt

CONSTANTS MaxB, MaxV

\* quantile levels on a dyadic grid (numerators over 8)
Levels == 0..8
\* numpy.quantile(method="linear") of the sorted sequence s (non-empty, integers) at level k/8
Quantile(s, k) == LET m == Len(s)
                      pos8 == k * (m - 1)                       \* 8 * position
                      lo == pos8 \div 8
                      fr == pos8 % 8                              \* 8 * fractional part
                  IN IF lo + 1 >= m THEN OfInt(s[m])
                     ELSE Frac(8 * s[lo + 1] + fr * (s[lo + 2] - s[lo + 1]), 8)
SortedSeqs == UNION {{s \in [1..b -> 0..MaxV] : \A i \in 1..(b - 1) : s[i] <= s[i + 1]} : b \in 1..MaxB}

VARIABLE vals          \* sorted statistics of the resamples
Init == vals \in SortedSeqs
Next == UNCHANGED vals
Spec == Init /\ [][Next]_vals

SumSeq(s) == LET RECURSIVE Sm(_) Sm(i) == IF i = 0 THEN 0 ELSE s[i] + Sm(i - 1) IN Sm(Len(s))
Mean(s) == Frac(SumSeq(s), Len(s))
\* laws
Monotone == \A k1, k2 \in Levels : k1 <= k2 => Le(Quantile(vals, k1), Quantile(vals, k2))
ConstantMetric == (\A i \in 1..Len(vals) : vals[i] = vals[1]) => \A k \in Levels : Quantile(vals, k) = OfInt(vals[1])
WithinRange == \A k \in Levels : Le(OfInt(vals[1]), Quantile(vals, k)) /\ Le(Quantile(vals, k), OfInt(vals[Len(vals)]))
\* a pair (q_lo, q_hi) with q_lo <= 1/B <= 1 - q_hi encloses the mean of the resample statistics
Encloses == \A k1, k2 \in Levels : (k1 * Len(vals) <= 8 /\ (8 - k2) * Len(vals) <= 8) =>
                 (Le(Quantile(vals, k1), Mean(vals)) /\ Le(Mean(vals), Quantile(vals, k2)))
=============================================================================
