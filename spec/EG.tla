-------------------------------- MODULE EG --------------------------------
(* Iteration / termination / selection protocol of ExponentiatedGradient.fit (C08, C10).      *)
(*                                                                                              *)
(* One iteration t of the code is:                                                              *)
(*    main oracle call (best_h(lambda_t))              -> Oracle, phase "main" -> "eval"        *)
(*    eval_gap(Q_EG): 1..4 oracle calls; with the LP step (t >= 1) a further 0..4               *)
(*                                                      -> Oracle, phase "eval"                 *)
(*    choice between the EG iterate and the LP iterate, bookkeeping, stop test -> Iter          *)
(* and after the loop the returned iterate is selected                          -> Select       *)
(*                                                                                              *)
(* Gaps and nu are real numbers in the code; the protocol only compares them, so they are       *)
(* represented by DENSE RANKS (order-isomorphic): 0..MaxRank, MaxRank+1 = +infinity.            *)
EXTENDS Integers, Sequences, FiniteSets, TLC

CONSTANTS MaxIterB,     \* bound on max_iter (model checking)
          MaxRankB,     \* bound on the gap ranks (model checking)
          MaxHs,        \* bound on the number of stored predictors (model checking; traces: large)
          MinIter,      \* _MIN_ITER = 5
          EvalCap,      \* oracle calls of one eval_gap: 4 in the code (multipliers 1, 2, 5, 10); smaller when model checking
          EvalCapLP     \* with the LP step: 8

\* the configuration of one fit: max_iter, run_linprog_step, rank of nu, rank standing for +infinity
VARIABLE cfg
MaxIter == cfg.maxIter
RunLP == cfg.runLP
NuRank == cfg.nuRank
Inf == cfg.inf
MaxRank == cfg.inf - 1
Cfgs == [maxIter : 1..MaxIterB, runLP : BOOLEAN, nuRank : 0..(MaxRankB + 1), inf : {MaxRankB + 1}]
VARIABLES t,         \* number of completed iterations
          nHs,       \* number of stored predictors
          qsum,      \* predictor id -> number of iterations whose main oracle call returned it
          gaps,      \* per iteration: min(gap_EG, gap_LP)
          src,       \* per iteration: "EG" or "LP"
          phase,     \* "main", "eval", "select", "done"
          firstIdx,  \* result of the main oracle call of the current iteration
          evalCalls, \* oracle calls made by eval_gap in the current iteration
          best       \* returned iteration (after Select), -1 before
vars == <<cfg, t, nHs, qsum, gaps, src, phase, firstIdx, evalCalls, best>>

Min2(a, b) == IF a < b THEN a ELSE b
InitRest == /\ t = 0 /\ nHs = 0 /\ qsum = [h \in 0..(MaxHs - 1) |-> 0] /\ gaps = <<>> /\ src = <<>>
            /\ phase = "main" /\ firstIdx = -1 /\ evalCalls = 0 /\ best = -1
Init == cfg \in Cfgs /\ InitRest

\* best_h: the oracle result is either a NEW predictor (id = number stored so far) or an existing one
OracleStep(idx, added) ==
   /\ phase \in {"main", "eval"}
   /\ IF added THEN idx = nHs /\ nHs < MaxHs /\ nHs' = nHs + 1 ELSE idx >= 0 /\ idx < nHs /\ nHs' = nHs
   /\ IF phase = "main" THEN firstIdx' = idx /\ phase' = "eval" /\ evalCalls' = 0
                        ELSE firstIdx' = firstIdx /\ phase' = "eval" /\ evalCalls' = evalCalls + 1
   /\ evalCalls' <= (IF RunLP /\ t >= 1 THEN EvalCapLP ELSE EvalCap)
   /\ UNCHANGED <<cfg, t, qsum, gaps, src, best>>

\* end of iteration t: gEG, gLP are the two gaps (ranks); gLP = Inf when the LP step did not run
IterStep(gEG, gLP) ==
   /\ phase = "eval" /\ evalCalls >= 1
   /\ gEG \in 0..MaxRank
   /\ IF t = 0 \/ ~RunLP THEN gLP = Inf ELSE gLP \in 0..MaxRank
   /\ qsum' = [qsum EXCEPT ![firstIdx] = @ + 1]
   /\ src' = Append(src, IF gEG < gLP THEN "EG" ELSE "LP")
   /\ gaps' = Append(gaps, Min2(gEG, gLP))
   /\ phase' = IF (Min2(gEG, gLP) < NuRank /\ t >= MinIter) \/ t + 1 = MaxIter THEN "select" ELSE "main"
   /\ t' = t + 1
   /\ UNCHANGED <<cfg, nHs, firstIdx, evalCalls, best>>

MinGap == CHOOSE g \in {gaps[i] : i \in 1..Len(gaps)} : \A i \in 1..Len(gaps) : g <= gaps[i]
\* returned iterate: the LAST iteration whose gap is within the numerical precision of the minimum;
\* thr is the rank of (minimum gap + precision), hence thr >= MinGap
SelectStep(b, thr) ==
   /\ phase = "select"
   /\ thr >= MinGap
   /\ b \in 1..Len(gaps) /\ gaps[b] <= thr /\ \A i \in (b + 1)..Len(gaps) : gaps[i] > thr
   /\ best' = b - 1
   /\ phase' = "done"
   /\ UNCHANGED <<cfg, t, nHs, qsum, gaps, src, firstIdx, evalCalls>>

Next == \/ \E idx \in 0..(MaxHs - 1), added \in BOOLEAN : OracleStep(idx, added)
        \/ \E gEG \in 0..MaxRankB, gLP \in 0..(MaxRankB + 1) : IterStep(gEG, gLP)
        \/ \E b \in 1..MaxIterB, thr \in 0..(MaxRankB + 1) : SelectStep(b, thr)
Spec == Init /\ [][Next]_vars

\* ---- properties ---------------------------------------------------------------------------------
TypeOK == /\ cfg \in Cfgs /\ t \in 0..MaxIter /\ Len(gaps) = t /\ Len(src) = t /\ nHs \in 0..MaxHs
QsumTotal == LET RECURSIVE S(_)
                 S(h) == IF h < 0 THEN 0 ELSE qsum[h] + S(h - 1)
             IN S(MaxHs - 1) = t
QsumOnStored == \A h \in 0..(MaxHs - 1) : qsum[h] > 0 => h < nHs
SrcRule == \A i \in 1..Len(src) : (i = 1 \/ ~RunLP) => src[i] = "EG"
\* termination before max_iter only after an iteration with gap < nu and t >= MinIter
EarlyStopCertified == (phase \in {"select", "done"} /\ t < MaxIter) => (gaps[t] < NuRank /\ t - 1 >= MinIter)
NoOverrun == phase \in {"main", "eval"} => (t < MaxIter /\ \A i \in 1..t : ~(gaps[i] < NuRank /\ i - 1 >= MinIter))
\* hence the certified gap: the minimum is below nu, and the returned gap is within precision of the minimum
BestGapCertified == (phase = "done" /\ t < MaxIter) => (MinGap < NuRank)
BestIsLastMin == phase = "done" => (gaps[best + 1] >= MinGap /\ \A i \in (best + 2)..Len(gaps) : gaps[i] > MinGap)
\* The inductive invariant of EGInd.tla (proved there by Apalache for unbounded max_iter, nu and gap values), mapped
\* onto this specification's variables; TLC checks it here so that the two texts cannot drift apart unnoticed.
IndMapped == LET abstractPhase == IF phase \in {"main", "eval"} THEN "iter" ELSE phase
                 cert == \E i \in 1..t : gaps[i] < NuRank /\ i - 1 >= MinIter
             IN /\ t >= 0 /\ t <= MaxIter /\ (abstractPhase \in {"select", "done"} => t >= 1)
                /\ ((abstractPhase \in {"select", "done"} /\ t < MaxIter) => (gaps[t] < NuRank /\ t - 1 >= MinIter /\ MinGap < NuRank))
                /\ (abstractPhase = "iter" => (t < MaxIter /\ ~cert))
                /\ (t >= 1 => MinGap <= gaps[t])
                /\ (phase = "done" => gaps[best + 1] >= MinGap)
=============================================================================
