--------------------------- MODULE AdvUpdateInd -----------------------------
(* Unbounded version of the Orthogonal law of AdvUpdate.tla (C16) for Apalache: tensors with up  *)
(* to four entries whose values are ARBITRARY integers (AdvUpdate.tla: entries in {-1, 0, 1}).    *)
(* Cleared of denominators: with nn = <gA,gA> and d = <gA,gP>, entry k of nn * (g + alpha*gA) is   *)
(* nn * gP[k] - d * gA[k]; the law says its inner product with gA vanishes.                        *)
EXTENDS Integers

VARIABLES
  \* @type: Int;
  p1,
  \* @type: Int;
  p2,
  \* @type: Int;
  p3,
  \* @type: Int;
  p4,
  \* @type: Int;
  a1,
  \* @type: Int;
  a2,
  \* @type: Int;
  a3,
  \* @type: Int;
  a4

Init == p1 \in Int /\ p2 \in Int /\ p3 \in Int /\ p4 \in Int /\ a1 \in Int /\ a2 \in Int /\ a3 \in Int /\ a4 \in Int
Next == UNCHANGED <<p1, p2, p3, p4, a1, a2, a3, a4>>

NN == a1 * a1 + a2 * a2 + a3 * a3 + a4 * a4
D == a1 * p1 + a2 * p2 + a3 * p3 + a4 * p4
U(p, a) == NN * p - D * a
Orthogonal == U(p1, a1) * a1 + U(p2, a2) * a2 + U(p3, a3) * a3 + U(p4, a4) * a4 = 0
=============================================================================
