------------------------------- MODULE Rat -------------------------------
(* Exact rationals for TLC: a rational is a pair <<num, den>> with den > 0, gcd-normalised   *)
(* (TLC integers are 32 bit, so every result is normalised).  <<0,0>> is "undefined" (the     *)
(* IEEE NaN of a 0/0 in the implementation); <<1,0>> is +infinity (x/0 with x > 0).           *)
(* Undefined is absorbing for arithmetic; comparisons are only applied to defined values.     *)
EXTENDS Integers, Sequences, FiniteSets

Abs(x) == IF x < 0 THEN -x ELSE x
RECURSIVE GCD(_, _)
GCD(a, b) == IF b = 0 THEN a ELSE GCD(b, a % b)

Undef  == <<0, 0>>
PosInf == <<1, 0>>
Zero   == <<0, 1>>
One    == <<1, 1>>
IsDef(r) == r[2] # 0
IsInf(r) == r[2] = 0 /\ r[1] # 0

Norm(r) == IF r[2] = 0 THEN (IF r[1] = 0 THEN Undef ELSE IF r[1] > 0 THEN PosInf ELSE <<-1, 0>>)
           ELSE LET s == IF r[2] < 0 THEN <<-r[1], -r[2]>> ELSE r
                    g == GCD(Abs(s[1]), s[2])
                IN IF g <= 1 THEN s ELSE <<s[1] \div g, s[2] \div g>>
Frac(n, d) == Norm(<<n, d>>)
OfInt(n) == <<n, 1>>

Add(a, b) == IF ~IsDef(a) \/ ~IsDef(b) THEN Undef ELSE Norm(<<a[1]*b[2] + b[1]*a[2], a[2]*b[2]>>)
Sub(a, b) == IF ~IsDef(a) \/ ~IsDef(b) THEN Undef ELSE Norm(<<a[1]*b[2] - b[1]*a[2], a[2]*b[2]>>)
Mul(a, b) == IF ~IsDef(a) \/ ~IsDef(b) THEN Undef ELSE Norm(<<a[1]*b[1], a[2]*b[2]>>)
Neg(a)    == IF ~IsDef(a) THEN Undef ELSE <<-a[1], a[2]>>
AbsR(a)   == IF ~IsDef(a) THEN Undef ELSE <<Abs(a[1]), a[2]>>
\* a / b  with IEEE reading:  0/0 = undefined,  x/0 = +-infinity (callers fold infinities explicitly)
Div(a, b) == IF ~IsDef(a) \/ ~IsDef(b) THEN Undef ELSE Norm(<<a[1]*b[2], a[2]*b[1]>>)

Eq(a, b) == a[1]*b[2] = b[1]*a[2]
Lt(a, b) == a[1]*b[2] < b[1]*a[2]
Le(a, b) == a[1]*b[2] <= b[1]*a[2]
MinR2(a, b) == IF Le(a, b) THEN a ELSE b
MaxR2(a, b) == IF Le(a, b) THEN b ELSE a

\* maximum / minimum of a non-empty set of defined rationals
MaxR(S) == CHOOSE a \in S : \A b \in S : Le(b, a)
MinR(S) == CHOOSE a \in S : \A b \in S : Le(a, b)
\* skipping undefined members (pandas min/max skip NaN); undefined when nothing is defined
DefOf(S) == {a \in S : IsDef(a)}
MaxSkip(S) == IF DefOf(S) = {} THEN Undef ELSE MaxR(DefOf(S))
MinSkip(S) == IF DefOf(S) = {} THEN Undef ELSE MinR(DefOf(S))

RECURSIVE SumSeqR(_)
SumSeqR(s) == IF s = <<>> THEN Zero ELSE Add(s[1], SumSeqR(Tail(s)))
=============================================================================
