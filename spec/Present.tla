------------------------------ MODULE Present ------------------------------
(* Presentation of one abstract dataset to an entry point (C12): every argument is handed over *)
(* in some container kind; pandas containers additionally carry index labels.  The meaning     *)
(* the property fixes is POSITIONAL: Abs(presentation) = the dataset, whatever the labels.     *)
(* The specification also carries the WRONG meaning (IngestByLabel: align the values on their  *)
(* index labels against the default labels 0..n-1) and calls a presentation DISCRIMINATING      *)
(* when the two meanings differ on the data - only those presentations can expose a            *)
(* label-alignment bug (default-index containers never do).                                    *)
EXTENDS Integers, Sequences, FiniteSets, TLC, Json

CONSTANTS NArgs, NRows, Emit

Kinds == {"list", "ndarray", "series", "frame"}
Schemes == {"default", "shuffled", "offset", "dup", "str"}
Pres == {<<k, "none">> : k \in {"list", "ndarray"}} \cup {<<k, s>> : k \in {"series", "frame"}, s \in Schemes}

\* index labels of a pandas container with n rows under each scheme ("str" labels are modelled by 100 + i)
Shuf(i) == ((i * 3) % NRows)                                   \* a fixed permutation of 0..n-1 when gcd(3, n) = 1
Labels(s) == [i \in 1..NRows |->
                CASE s = "default" -> i - 1
                  [] s = "shuffled" -> Shuf(i)
                  [] s = "offset" -> 10 + i - 1
                  [] s = "dup" -> (i - 1) \div 2
                  [] s = "str" -> 100 + Shuf(i)
                  [] s = "none" -> i - 1]
\* the abstract dataset: argument a holds the values a*10 + row position (all distinct, so any misalignment is visible)
Vals(a) == [i \in 1..NRows |-> a * 10 + i]
Abs(p, a) == Vals(a)                                            \* positional meaning: independent of the presentation
NA == -1
\* wrong meaning: value whose label equals the default label of the row (NA if absent or ambiguous)
ByLabel(p, a) == LET lab == Labels(p[a][2]) IN
                 [i \in 1..NRows |-> LET hits == {j \in 1..NRows : lab[j] = i - 1}
                                     IN IF Cardinality(hits) = 1 THEN Vals(a)[CHOOSE j \in hits : TRUE] ELSE NA]
Discriminating(p) == \E a \in 1..NArgs : ByLabel(p, a) # Abs(p, a)

VARIABLE pres
Init == pres \in [1..NArgs -> Pres]
Next == UNCHANGED pres
Spec == Init /\ [][Next]_pres

\* the positional meaning never depends on the presentation; list/ndarray/default-index presentations are never discriminating
AbsInvariant == \A a \in 1..NArgs : Abs(pres, a) = Vals(a)
DefaultNeverDiscriminates == (\A a \in 1..NArgs : pres[a][2] \in {"none", "default"}) => ~Discriminating(pres)
NonDefaultDiscriminates == (\E a \in 1..NArgs : pres[a][2] \in {"shuffled", "offset", "dup", "str"}) => Discriminating(pres)

Obs == [pres |-> [a \in 1..NArgs |-> pres[a]], disc |-> Discriminating(pres),
        labels |-> [a \in 1..NArgs |-> Labels(pres[a][2])]]
EmitInv == Emit => PrintT(ToJson(Obs))
=============================================================================
