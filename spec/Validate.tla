------------------------------ MODULE Validate ------------------------------
(* Input validation (C20): the guard "a call with a defect must be rejected".                    *)
(* The state space is the table of calls:  entry point x argument x accepted container kind x     *)
(* defect.  MustReject(call) <=> the call carries a defect; the defect-free twin of every call     *)
(* (defect = "none") must be accepted (otherwise the case says nothing about C20).                 *)
EXTENDS Integers, Sequences, FiniteSets, TLC, Json

CONSTANTS Emit

Vec == {"list", "ndarray", "series", "frame"}        \* containers accepted for a vector argument
\* entry point |-> arguments that carry per-row data
DataArgs == [MetricFrame |-> {"y_true", "y_pred", "sensitive_features", "control_features", "sample_param"},
             fairness_metric |-> {"y_true", "y_pred", "sensitive_features", "sample_weight"},
             moment_load_data |-> {"y", "sensitive_features", "control_features"},
             ExponentiatedGradient_fit |-> {"y", "sensitive_features", "control_features"},
             GridSearch_fit |-> {"y", "sensitive_features", "control_features"},
             ThresholdOptimizer_fit |-> {"y", "sensitive_features"},
             ThresholdOptimizer_predict |-> {"sensitive_features"}]
EntryPoints == DOMAIN DataArgs
LengthDefects == {"short1", "short2", "long1", "long3"}
\* entry points whose labels must be 0/1
BinaryLabelEPs == {"moment_load_data", "ExponentiatedGradient_fit", "GridSearch_fit", "ThresholdOptimizer_fit"}
LabelDefects == {"label2", "labelneg1", "labelhalf"}
\* defects that are not tied to a data argument ("config" defects), per entry point
ConfigDefects == [MetricFrame |-> {"dup_names_sf_cf", "dup_names_df", "int_column_name", "int_series_name", "int_dict_key"},
                  fairness_metric |-> {},
                  moment_load_data |-> {},
                  ExponentiatedGradient_fit |-> {"missing_sf"},
                  GridSearch_fit |-> {"missing_sf"},
                  ThresholdOptimizer_fit |-> {"missing_sf", "degenerate_group", "control_features", "eo_with_selection_rate", "unknown_constraint", "unknown_objective", "estimator_none"},
                  ThresholdOptimizer_predict |-> {},
                  constructor |-> {"both_bounds", "ratio_zero", "ratio_above_one", "ratio_negative", "costs_negative", "costs_zero", "costs_missing_key", "costs_not_dict",
                                   "constraint_weight_high", "constraint_weight_low", "selection_rule", "constraints_not_moment"},
                  CorrelationRemover_fit |-> {"missing_column", "missing_named_column"},
                  not_fitted |-> {"EG_predict", "GS_predict", "GS_predict_proba", "TO_predict", "CR_transform", "ADV_predict", "EG_pmf_predict"}]

Calls == UNION {{[ep |-> e, arg |-> a, container |-> c, defect |-> d] : a \in DataArgs[e], c \in Vec, d \in LengthDefects \cup {"none"}} : e \in EntryPoints}
         \cup {[ep |-> e, arg |-> "y", container |-> c, defect |-> d] : e \in BinaryLabelEPs, c \in Vec, d \in LabelDefects}
         \cup UNION {{[ep |-> e, arg |-> "-", container |-> "-", defect |-> d] : d \in ConfigDefects[e]} : e \in DOMAIN ConfigDefects}

VARIABLE call
Init == call \in Calls
Next == UNCHANGED call
Spec == Init /\ [][Next]_call

MustReject(c) == c.defect # "none"
MustBeNotFittedError(c) == c.ep = "not_fitted"
\* vacuity guards on the table itself
EveryArgHasADefect == \A e \in EntryPoints : \A a \in DataArgs[e] : \A c \in Vec : \E x \in Calls : x.ep = e /\ x.arg = a /\ x.container = c /\ MustReject(x)
EveryDefectHasATwin == \A x \in Calls : (x.arg # "-" /\ MustReject(x)) => [x EXCEPT !.defect = "none", !.arg = IF x.defect \in LabelDefects THEN "y" ELSE x.arg] \in Calls
TableOK == EveryArgHasADefect /\ EveryDefectHasATwin

Obs == [ep |-> call.ep, arg |-> call.arg, container |-> call.container, defect |-> call.defect, must_reject |-> MustReject(call), not_fitted |-> MustBeNotFittedError(call)]
EmitInv == Emit => PrintT(ToJson(Obs))
=============================================================================
