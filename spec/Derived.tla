------------------------------ MODULE Derived -------------------------------
(* Extension beyond the listed properties: fairlearn.metrics.make_derived_metric - how the       *)
(* keyword arguments of a derived metric are routed.                                               *)
(* Construction:  a non-callable metric, a metric that itself has a `method` parameter and an       *)
(*                unknown transform are REJECTED (in that order).                                   *)
(* Call:          every keyword argument other than sensitive_features goes to exactly one place:   *)
(*     listed in sample_param_names        -> "sliced": a per-sample parameter, cut per group       *)
(*     else named `method`                 -> "transform": handed to difference() / ratio()         *)
(*     else                                -> "bound": handed unchanged to every metric evaluation  *)
(* The listing has priority over the name.  Deviation of the code named as such (MethodDropped):    *)
(* for group_min / group_max the `method` argument is accepted and silently dropped.                *)
EXTENDS Integers, FiniteSets, TLC, Json

CONSTANTS Emit

Params == {"sample_weight", "w2", "alpha", "method"}       \* alpha: a scalar parameter of the metric
Transforms == {"difference", "ratio", "group_min", "group_max", "bogus"}
VARIABLES given, spn, transform, metricHasMethod, isCallable
vars == <<given, spn, transform, metricHasMethod, isCallable>>
Init == /\ given \in SUBSET Params
        /\ spn \in SUBSET {"sample_weight", "w2", "alpha"}
        /\ transform \in Transforms
        /\ metricHasMethod \in BOOLEAN /\ isCallable \in BOOLEAN
        /\ (~isCallable => ~metricHasMethod)
Next == UNCHANGED vars
Spec == Init /\ [][Next]_vars

Construction == IF ~isCallable THEN "not_callable"
                ELSE IF metricHasMethod THEN "method_arg_error"
                ELSE IF transform = "bogus" THEN "invalid_transform" ELSE "ok"
Route(k) == IF k \in spn THEN "sliced" ELSE IF k = "method" THEN "transform" ELSE "bound"
MethodUsed == "method" \in given /\ transform \in {"difference", "ratio"}
MethodDropped == "method" \in given /\ transform \in {"group_min", "group_max"}
\* what the metric function sees in each evaluation
Seen == {k \in given : Route(k) # "transform"}

\* ---- laws
ExactlyOnePlace == \A k \in given : Route(k) \in {"sliced", "transform", "bound"}
MetricNeverSeesMethod == "method" \notin Seen
ListedMeansSliced == \A k \in given \cap spn : Route(k) = "sliced"
DefaultListSlicesWeights == (spn = {"sample_weight"} /\ "sample_weight" \in given) => Route("sample_weight") = "sliced"
EmptyListBindsEverything == spn = {} => \A k \in given \ {"method"} : Route(k) = "bound"

Obs == [given |-> [k \in Params |-> k \in given], spn |-> [k \in {"sample_weight", "w2", "alpha"} |-> k \in spn], transform |-> transform,
        metric_has_method |-> metricHasMethod, callable |-> isCallable, construction |-> Construction,
        route |-> [k \in Params |-> IF k \in given THEN Route(k) ELSE "-"], method_used |-> MethodUsed, method_dropped |-> MethodDropped]
EmitInv == Emit => PrintT(ToJson(Obs))
=============================================================================
