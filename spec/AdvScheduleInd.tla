--------------------------- MODULE AdvScheduleInd ---------------------------
(* Unbounded version of the step-count clause of AdvSchedule.tla (C17) for Apalache:            *)
(* the same actions without the history variables, for ALL numbers of batches B >= 1, epochs     *)
(* E >= 0, max_iter mi (-1 = unlimited) and stop steps; IndInv is inductive and implies the       *)
(* count clause of AtDone.                                                                        *)
EXTENDS Integers

VARIABLES
  \* @type: Int;
  n,
  \* @type: Int;
  bs,
  \* @type: Int;
  B,
  \* @type: Int;
  E,
  \* @type: Int;
  mi,
  \* @type: Int;
  stop,
  \* @type: Int;
  epoch,
  \* @type: Int;
  batch,
  \* @type: Int;
  nIter,
  \* @type: Int;
  nCb,
  \* @type: Str;
  phase

\* B = ceil(n / bs) said without division: (B - 1) * bs < n <= B * bs
Params == n >= 1 /\ bs >= 1 /\ (B - 1) * bs < n /\ n <= B * bs /\ B >= 1 /\ E >= 0 /\ (mi = -1 \/ mi >= 1) /\ stop >= 0

Init == /\ n \in Int /\ bs \in Int /\ B \in Int /\ E \in Int /\ mi \in Int /\ stop \in Int /\ Params
        /\ epoch = 0 /\ batch = 0 /\ nIter = 0 /\ nCb = 0
        /\ phase = IF E = 0 THEN "done" ELSE "train"

TrainStep == /\ phase = "train"
             /\ nIter' = nIter + 1
             /\ phase' = IF mi # -1 /\ nIter + 1 >= mi THEN "done" ELSE "callback"
             /\ UNCHANGED <<n, bs, B, E, mi, stop, epoch, batch, nCb>>

Callback == /\ phase = "callback"
            /\ nCb' = nCb + 1
            /\ IF stop = nIter THEN phase' = "done" /\ UNCHANGED <<batch, epoch>>
               ELSE IF batch + 1 < B THEN batch' = batch + 1 /\ epoch' = epoch /\ phase' = "train"
               ELSE IF epoch + 1 < E THEN batch' = 0 /\ epoch' = epoch + 1 /\ phase' = "train"
               ELSE batch' = batch /\ epoch' = epoch /\ phase' = "done"
            /\ UNCHANGED <<n, bs, B, E, mi, stop, nIter>>

Next == TrainStep \/ Callback

Min(a, b) == IF a < b THEN a ELSE b
Planned == IF mi = -1 THEN E * B ELSE Min(E * B, mi)
Expected == IF stop > 0 /\ stop < Planned THEN stop ELSE Planned

\* the count clause of AtDone
AtDoneCount == phase = "done" =>
                 /\ nIter = Expected
                 /\ nCb = IF mi # -1 /\ nIter >= mi THEN nIter - 1 ELSE nIter

IndInv == /\ Params
          /\ phase \in {"train", "callback", "done"}
          /\ 0 <= batch /\ batch < B /\ 0 <= epoch
          /\ (E = 0 => phase = "done" /\ nIter = 0 /\ nCb = 0)
          /\ (E > 0 => epoch < E)
          /\ (phase = "train" => /\ nIter = epoch * B + batch /\ nCb = nIter
                                 /\ (mi = -1 \/ nIter < mi) /\ (stop = 0 \/ stop > nIter))
          /\ (phase = "callback" => /\ nIter = epoch * B + batch + 1 /\ nCb = nIter - 1
                                    /\ (mi = -1 \/ nIter < mi) /\ (stop = 0 \/ stop >= nIter))
          /\ AtDoneCount

\* the slice of the step that is about to run (phase = "train"): non-empty, inside 0..n, last batch of an epoch ends at n,
\* and the next batch starts where this one ends
Lo(b) == b * bs
Hi(b) == Min((b + 1) * bs, n)
SliceLaws == phase = "train" =>
               /\ 0 <= Lo(batch) /\ Lo(batch) < Hi(batch) /\ Hi(batch) <= n
               /\ (batch = B - 1 => Hi(batch) = n)
               /\ (batch + 1 < B => Hi(batch) = Lo(batch + 1) /\ Hi(batch) < n)

IndInit == /\ n \in Int /\ bs \in Int /\ B \in Int /\ E \in Int /\ mi \in Int /\ stop \in Int /\ epoch \in Int /\ batch \in Int
           /\ nIter \in Int /\ nCb \in Int /\ phase \in {"train", "callback", "done"}
           /\ IndInv
=============================================================================
