------------------------------ MODULE Dispatch ------------------------------
(* Extension beyond the listed properties: which method of the wrapped estimator supplies the   *)
(* scores of ThresholdOptimizer / InterpolatedThresholder (fairlearn.utils._common), and the     *)
(* prefit semantics.                                                                             *)
(*   caps    the prediction methods the estimator offers                                         *)
(*   method  the predict_method parameter                                                        *)
(* "auto" prefers predict_proba (second column), then decision_function, then predict; an         *)
(* explicit method is used as given (and fails when the estimator lacks it).                      *)
(* prefit = TRUE: the estimator object is used as it is (never cloned, never refitted);           *)
(* prefit = FALSE: a clone is fitted on the training data and the original stays untouched.       *)
EXTENDS Integers, FiniteSets, TLC, Json

CONSTANTS Emit
Methods == {"predict_proba", "decision_function", "predict"}
VARIABLES caps, method, prefit
vars == <<caps, method, prefit>>
Init == /\ caps \in (SUBSET Methods) \ {{}} /\ method \in Methods \cup {"auto"} /\ prefit \in BOOLEAN
Next == UNCHANGED vars
Spec == Init /\ [][Next]_vars

Chosen == IF method = "auto"
          THEN (IF "predict_proba" \in caps THEN "predict_proba" ELSE IF "decision_function" \in caps THEN "decision_function" ELSE "predict")
          ELSE method
Fails == Chosen \notin caps
\* predict_proba output is a two-column matrix of which the SECOND column is the score
UsesSecondColumn == Chosen = "predict_proba"
FitsAClone == ~prefit
AutoNeverFails == (method = "auto" /\ "predict" \in caps) => ~Fails
AutoPrefersProba == (method = "auto" /\ "predict_proba" \in caps) => Chosen = "predict_proba"
Obs == [caps |-> [m \in {"predict_proba", "decision_function", "predict"} |-> m \in caps], method |-> method, prefit |-> prefit,
        chosen |-> Chosen, fails |-> Fails, second_column |-> UsesSecondColumn, fits_a_clone |-> FitsAClone]
EmitInv == Emit => PrintT(ToJson(Obs))
=============================================================================
