------------------------------- MODULE Naming -------------------------------
(* Extension beyond the listed properties: how MetricFrame names its sensitive / control features *)
(* (fairlearn.metrics._metric_frame.MetricFrame._process_features and GroupFeature).               *)
(*                                                                                                 *)
(* An argument arrives in one of six FORMS; each form yields a sequence of feature names:          *)
(*   list / 1-d array        one feature named  <base>0                                            *)
(*   2-d array with k cols   k features named   <base>0 .. <base>(k-1)                             *)
(*   Series                  its name, <base>0 when the name is None, REJECTED when not a string   *)
(*   DataFrame / dict        the column names / keys, REJECTED when one is not a string            *)
(* <base> is "sensitive_feature_" or "control_feature_".  Sensitive features are processed first,  *)
(* then control features, then the concatenated list is searched for duplicates (REJECTED).  The   *)
(* index of by_group carries the control names first, then the sensitive names.                    *)
(* Deviation of the code named here as such: a feature called like one of the frame's internal     *)
(* columns ("y_true", "y_pred") overwrites that column and the construction fails with an          *)
(* unrelated exception (outcome "reserved").                                                       *)
EXTENDS Integers, Sequences, FiniteSets, TLC, Json

CONSTANTS Emit, NShards, Shard

INT  == "INT"          \* stands for any non-string name (7, 2.5, a tuple)
NONE == "NONE"
StrNames == {"a", "b", "sensitive_feature_0", "control_feature_0", "y_true"}
Names == StrNames \cup {INT}
Reserved == {"y_true", "y_pred"}

ColSeqs == {<<x>> : x \in Names} \cup {<<x, y>> : x \in Names, y \in Names}
DictSeqs == {s \in ColSeqs : Len(s) = 1 \/ s[1] # s[2]}              \* dict keys are distinct
Forms == {[k |-> "list"], [k |-> "arr1"]} \cup {[k |-> "arr2", n |-> n] : n \in 1..2}
         \cup {[k |-> "series", name |-> x] : x \in Names \cup {NONE}}
         \cup {[k |-> "df", cols |-> s] : s \in ColSeqs} \cup {[k |-> "dict", cols |-> s] : s \in DictSeqs}
Absent == [k |-> "absent"]

VARIABLES sf, cf
vars == <<sf, cf>>
Init == sf \in Forms /\ cf \in Forms \cup {Absent}
Next == UNCHANGED vars
Spec == Init /\ [][Next]_vars

Digit(i) == IF i = 0 THEN "0" ELSE "1"
Auto(base, n) == [i \in 1..n |-> base \o Digit(i - 1)]
Bad == <<"BAD">>
NamesOf(f, base) ==
   CASE f.k \in {"list", "arr1"} -> Auto(base, 1)
     [] f.k = "arr2"   -> Auto(base, f.n)
     [] f.k = "series" -> IF f.name = NONE THEN Auto(base, 1) ELSE IF f.name = INT THEN Bad ELSE <<f.name>>
     [] f.k \in {"df", "dict"} -> IF \E i \in 1..Len(f.cols) : f.cols[i] = INT THEN Bad ELSE f.cols
     [] f.k = "absent" -> <<>>

SfNames == NamesOf(sf, "sensitive_feature_")
CfNames == NamesOf(cf, "control_feature_")
All == SfNames \o CfNames
HasDup(s) == \E i, j \in 1..Len(s) : i < j /\ s[i] = s[j]
Outcome == IF SfNames = Bad \/ CfNames = Bad THEN "bad_name"
           ELSE IF HasDup(All) THEN "duplicate"
           ELSE IF \E i \in 1..Len(All) : All[i] \in Reserved THEN "reserved"
           ELSE "ok"
IndexNames == CfNames \o SfNames                                        \* control levels first

\* ---- laws
OkDistinct == Outcome = "ok" => ~HasDup(IndexNames)
OkStrings  == Outcome = "ok" => \A i \in 1..Len(IndexNames) : IndexNames[i] # INT /\ IndexNames[i] # "BAD"
OkCount    == Outcome = "ok" => Len(IndexNames) = Len(SfNames) + Len(CfNames) /\ Len(SfNames) >= 1
\* an unnamed container never collides with another unnamed container (the two bases differ)
UnnamedNeverCollide == (sf.k \in {"list", "arr1", "arr2"} /\ cf.k \in {"list", "arr1", "arr2", "absent"}) => Outcome = "ok"

FormObs(f) == [k |-> f.k, n |-> IF f.k = "arr2" THEN f.n ELSE 0, name |-> IF f.k = "series" THEN f.name ELSE "",
               cols |-> IF f.k \in {"df", "dict"} THEN f.cols ELSE <<>>]
Obs == [sf |-> FormObs(sf), cf |-> FormObs(cf), outcome |-> Outcome, sf_names |-> IF Outcome = "bad_name" THEN <<>> ELSE SfNames,
        cf_names |-> IF Outcome = "bad_name" THEN <<>> ELSE CfNames, index_names |-> IF Outcome = "bad_name" THEN <<>> ELSE IndexNames]
MyShard == (Len(SfNames) * 7 + Len(CfNames) * 3 + (IF sf.k = "df" THEN Len(sf.cols) ELSE 0) + (IF cf.k = "series" THEN 1 ELSE 0)
            + (IF sf.k = "series" THEN 2 ELSE 0)) % NShards = Shard
EmitInv == (Emit /\ MyShard) => PrintT(ToJson(Obs))
=============================================================================
