------------------------------ MODULE CorrRem ------------------------------
(* CorrelationRemover (C15) on small integer matrices, in exact arithmetic.                     *)
(* A row is (s_1..s_K, z_1..z_M): K sensitive and M other columns, entries 0..V-1.               *)
(* fit: centre every sensitive column with ITS OWN mean, least-squares regress each other       *)
(* column on the centred sensitive columns (no intercept); transform: z - (s - mean) . beta,     *)
(* blended with the original by alpha.  The residual is unique even when the centred sensitive  *)
(* columns are rank deficient (constant or collinear columns); the coefficients are unique only *)
(* at full rank.  Everything is computed with integers u_j = n*(s_j - mean_j) and one division. *)
EXTENDS Rat, TLC, Json, FiniteSetsExt

CONSTANTS N, K, M, V, Emit, NShards, Shard

NT == LET RECURSIVE P(_) P(e) == IF e = 0 THEN 1 ELSE V * P(e - 1) IN P(K + M)
RECURSIVE PowV(_)
PowV(e) == IF e = 0 THEN 1 ELSE V * PowV(e - 1)
Col(t, j) == (t \div PowV(j - 1)) % V                 \* column j (1..K sensitive, K+1..K+M other) of row type t

VARIABLE rows
vars == <<rows>>
Init == rows = <<>>
AddRow(t) == /\ Len(rows) < N
             /\ IF rows = <<>> THEN TRUE ELSE rows[Len(rows)] <= t
             /\ rows' = Append(rows, t)
Next == \E t \in 0..(NT - 1) : AddRow(t)
NextSim == \E t \in 0..(NT - 1) : Len(rows) < N /\ rows' = Append(rows, t)
Spec == Init /\ [][Next]_vars

n == Len(rows)
R == 1..n
Sum(f(_)) == FoldSet(LAMBDA i, acc : acc + f(i), 0, R)
SumRows == FoldSet(LAMBDA i, acc : acc + rows[i] * i, 0, R)
MyShard == SumRows % NShards = Shard
S(i, j) == Col(rows[i], j)                            \* sensitive column j
Z(i, m) == Col(rows[i], K + m)                        \* other column m
U(i, j) == n * S(i, j) - Sum(LAMBDA q : S(q, j))      \* n * (s_ij - mean_j): integer, sums to 0 over i
Dot(j1, j2) == Sum(LAMBDA i : U(i, j1) * U(i, j2))
DotZ(j, m) == Sum(LAMBDA i : U(i, j) * Z(i, m))

\* rank of the centred sensitive columns (K <= 2)
Det == IF K = 2 THEN Dot(1, 1) * Dot(2, 2) - Dot(1, 2) * Dot(1, 2) ELSE Dot(1, 1)
Rank == IF K = 1 THEN (IF Dot(1, 1) = 0 THEN 0 ELSE 1)
        ELSE IF Det # 0 THEN 2 ELSE IF Dot(1, 1) = 0 /\ Dot(2, 2) = 0 THEN 0 ELSE 1
\* a spanning column when the rank is 1
Span1 == IF Dot(1, 1) # 0 THEN 1 ELSE 2
\* least-squares residual of other column m, entry i
Residual(i, m) ==
   IF Rank = 0 THEN OfInt(Z(i, m))
   ELSE IF Rank = 1 THEN LET j == Span1 IN Frac(Dot(j, j) * Z(i, m) - DotZ(j, m) * U(i, j), Dot(j, j))
   ELSE Frac(Det * Z(i, m) - (Dot(2, 2) * DotZ(1, m) - Dot(1, 2) * DotZ(2, m)) * U(i, 1)
                           - (Dot(1, 1) * DotZ(2, m) - Dot(1, 2) * DotZ(1, m)) * U(i, 2), Det)
\* coefficients with respect to the centred columns (s - mean), defined at full rank only:  beta_j = n * beta'_j
Beta(j, m) == IF K = 1 THEN Frac(n * DotZ(1, m), Dot(1, 1))
              ELSE IF j = 1 THEN Frac(n * (Dot(2, 2) * DotZ(1, m) - Dot(1, 2) * DotZ(2, m)), Det)
                   ELSE Frac(n * (Dot(1, 1) * DotZ(2, m) - Dot(1, 2) * DotZ(1, m)), Det)
FullRank == Rank = K
MeanS(j) == Frac(Sum(LAMBDA q : S(q, j)), n)
\* transform of a NEW row (sensitive values sv, other values zv) with the learned means and coefficients (alpha = 1)
NewRowOut(sv, zv, m) == LET RECURSIVE Acc(_)
                            Acc(j) == IF j = 0 THEN Zero ELSE Add(Acc(j - 1), Mul(Beta(j, m), Sub(OfInt(sv[j]), MeanS(j))))
                        IN Sub(OfInt(zv[m]), Acc(K))
Blend(a, res, z) == Add(Mul(a, res), Mul(Sub(One, a), OfInt(z)))
Alphas == << <<0, 1>>, <<1, 2>>, <<1, 1>> >>

\* ---- laws -------------------------------------------------------------------------------------
\* zero sample covariance of every output column with every sensitive column (alpha = 1)
ZeroCov == n >= 2 => \A m \in 1..M, j \in 1..K :
             LET c == FoldSet(LAMBDA i, acc : Add(acc, Mul(Residual(i, m), OfInt(U(i, j)))), Zero, R) IN c = Zero
\* the residual is what the learned affine map produces on the training rows (full rank)
TransformIsFitTransform == (n >= 2 /\ FullRank) => \A i \in R, m \in 1..M :
             Eq(NewRowOut([j \in 1..K |-> S(i, j)], [q \in 1..M |-> Z(i, q)], m), Residual(i, m))
AlphaZeroIdentity == n >= 2 => \A i \in R, m \in 1..M : Blend(Zero, Residual(i, m), Z(i, m)) = OfInt(Z(i, m))

NewS == [j \in 1..K |-> (j + 1) % V]
NewZ == [m \in 1..M |-> (2 * m) % V]
Obs == [rows |-> [i \in R |-> [j \in 1..(K + M) |-> Col(rows[i], j)]], K |-> K, M |-> M, rank |-> Rank,
        residual |-> [i \in R |-> [m \in 1..M |-> Residual(i, m)]],
        blend |-> [a \in 1..3 |-> [i \in R |-> [m \in 1..M |-> Blend(Alphas[a], Residual(i, m), Z(i, m))]]],
        beta |-> IF FullRank THEN [j \in 1..K |-> [m \in 1..M |-> Beta(j, m)]] ELSE <<>>,
        new_row |-> [s |-> NewS, z |-> NewZ],
        new_out |-> IF FullRank THEN [m \in 1..M |-> NewRowOut(NewS, NewZ, m)] ELSE <<>>]
EmitInv == (Emit /\ n >= 2 /\ MyShard) => PrintT(ToJson(Obs))
=============================================================================
