------------------------------ MODULE LifeTrace ------------------------------
(* Validation of recorded estimator histories against Lifecycle.tla (C19).                       *)
(* Events: fit(d, ret_self, params_ok), predict(seed, fitted, fp, fp_repeat), pickle(params_ok),    *)
(* clone(params_ok, fitted).  fp is a fingerprint of the predictions on a fixed query set; the      *)
(* map (abstract model, seed) -> fingerprint must be a FUNCTION over the whole trace set of one     *)
(* estimator configuration: the same data gives the same model whatever the history.                *)
EXTENDS Lifecycle, IOUtils, TLCExt

Traces == JsonDeserialize(IOEnv.TRACE_FILE)
VARIABLES tid, l, fp
tvars == <<vars, tid, l, fp>>
Ev == Traces[tid].events
TInit == /\ tid \in 1..Len(Traces) /\ l = 1
         /\ kind = Traces[tid].kind /\ params = "p0" /\ model = None /\ hist = <<>>
         /\ fp = Traces[tid].ref            \* reference fingerprints of FRESH estimators: [d1s1, d1s2, d2s1, d2s2]
RefOf(d, s) == fp[(d - 1) * 2 + s]
IsEvent(name) == l <= Len(Ev) /\ Ev[l].ev = name /\ l' = l + 1 /\ tid' = tid /\ fp' = fp

TFit == /\ IsEvent("fit") /\ Fit(Ev[l].d)
        /\ Ev[l].ret_self                       \* fit returns the estimator itself
        /\ Ev[l].params_ok                      \* constructor parameters unchanged
TPredict == /\ IsEvent("predict") /\ Predict(Ev[l].seed)
            /\ Ev[l].fitted = (model # None)  \* NotFittedError exactly when unfitted
            /\ model # None => /\ Ev[l].fp = RefOf(model, Ev[l].seed)       \* same model as a fresh estimator fitted on that data
                                 /\ Ev[l].fp_repeat = Ev[l].fp                \* repeating the call repeats the answer
            /\ Ev[l].params_ok
TPickle == /\ IsEvent("pickle") /\ Pickle /\ Ev[l].params_ok
TClone == /\ IsEvent("clone") /\ Clone /\ Ev[l].params_ok /\ ~Ev[l].fitted
TAccept == /\ l = Len(Ev) + 1 /\ PrintT(<<"ACCEPT", tid>>) /\ l' = l + 1 /\ UNCHANGED <<vars, tid, fp>>
TNext == TFit \/ TPredict \/ TPickle \/ TClone \/ TAccept
TSpec == TInit /\ [][TNext]_tvars
Diag == PrintT(<<"AT", tid, l>>)
=============================================================================
