----------------------------- MODULE Metrics -----------------------------
(* Base rate metrics of fairlearn.metrics (C14) and the weight = multiplicity laws (C11) on  *)
(* plain vectors.  A row is (y, p, w): abstract true class, abstract predicted class          *)
(* (1 = the positive class under the chosen pos_label), integer weight.  Which concrete       *)
(* values encode the two classes is a presentation choice made by the replay (0/1, -1/1,      *)
(* 'x'/'y', 2/5 with pos_label either way); the specification defines the meaning.            *)
EXTENDS Rat, TLC, Json, FiniteSetsExt

CONSTANTS N,        \* maximal vector length
          W,        \* weights range over 1..W
          Emit,     \* TRUE: print one JSON observation per state
          NShards, Shard

NT == 4 * W
Yof(t) == (t \div (2 * W)) % 2
Pof(t) == (t \div W) % 2
Wof(t) == (t % W) + 1
TypeOf(y, p, w) == y * 2 * W + p * W + (w - 1)

VARIABLE rows          \* canonical (non-decreasing) sequence of row-type ids = a multiset of rows
vars == <<rows>>

Init == rows = <<>>
AddRow(t) == /\ Len(rows) < N
             /\ IF rows = <<>> THEN t % NShards = Shard ELSE rows[Len(rows)] <= t
             /\ rows' = Append(rows, t)
Next == \E t \in 0..(NT - 1) : AddRow(t)
\* simulation: no canonical-order guard (a guarded random walk drifts to the last row types)
NextSim == \E t \in 0..(NT - 1) : Len(rows) < N /\ rows' = Append(rows, t)
Spec == Init /\ [][Next]_vars

Sum(S, f(_)) == FoldSet(LAMBDA i, acc : acc + f(i), 0, S)

\* ---- weighted confusion matrix of a sequence r of row types, weights used iff uw ----------
Wt(r, uw, i) == IF uw THEN Wof(r[i]) ELSE 1
Idx(r) == 1..Len(r)
TPw(r, uw) == Sum({i \in Idx(r) : Yof(r[i]) = 1 /\ Pof(r[i]) = 1}, LAMBDA i : Wt(r, uw, i))
FNw(r, uw) == Sum({i \in Idx(r) : Yof(r[i]) = 1 /\ Pof(r[i]) = 0}, LAMBDA i : Wt(r, uw, i))
FPw(r, uw) == Sum({i \in Idx(r) : Yof(r[i]) = 0 /\ Pof(r[i]) = 1}, LAMBDA i : Wt(r, uw, i))
TNw(r, uw) == Sum({i \in Idx(r) : Yof(r[i]) = 0 /\ Pof(r[i]) = 0}, LAMBDA i : Wt(r, uw, i))
Tot(r, uw) == Sum(Idx(r), LAMBDA i : Wt(r, uw, i))

\* a rate whose denominator is empty is 0 (documented; both complementary rates are 0 then)
Rate(num, den) == IF den = 0 THEN Zero ELSE Frac(num, den)
TPR(r, uw) == Rate(TPw(r, uw), TPw(r, uw) + FNw(r, uw))
FNR(r, uw) == Rate(FNw(r, uw), TPw(r, uw) + FNw(r, uw))
FPR(r, uw) == Rate(FPw(r, uw), FPw(r, uw) + TNw(r, uw))
TNR(r, uw) == Rate(TNw(r, uw), FPw(r, uw) + TNw(r, uw))
SelRate(r, uw) == Frac(TPw(r, uw) + FPw(r, uw), Tot(r, uw))      \* fraction predicted positive
MeanPred(r, uw) == SelRate(r, uw)                                 \* mean of the abstract prediction (replay maps affinely to the encoding)
Count(r) == Len(r)

\* ---- transformations used by the laws -----------------------------------------------------
SwapClass(r) == [i \in Idx(r) |-> TypeOf(1 - Yof(r[i]), 1 - Pof(r[i]), Wof(r[i]))]
ScaleW(r, c) == r        \* scaling is not representable inside 1..W; checked arithmetically below
RECURSIVE Expand(_)
\* weight k  |->  k unit-weight copies
Expand(r) == IF r = <<>> THEN <<>>
             ELSE [j \in 1..Wof(r[1]) |-> TypeOf(Yof(r[1]), Pof(r[1]), 1)] \o Expand(Tail(r))

HasPos(r) == \E i \in Idx(r) : Yof(r[i]) = 1
HasNeg(r) == \E i \in Idx(r) : Yof(r[i]) = 0
In01(q) == Le(Zero, q) /\ Le(q, One)

\* ---- C14 laws (checked by TLC on every vector) ---------------------------------------------
LawRange == rows # <<>> => \A uw \in BOOLEAN :
              In01(TPR(rows, uw)) /\ In01(FNR(rows, uw)) /\ In01(FPR(rows, uw)) /\ In01(TNR(rows, uw))
              /\ In01(SelRate(rows, uw))
LawComplement == rows # <<>> => \A uw \in BOOLEAN :
      /\ IF HasPos(rows) THEN Eq(Add(TPR(rows, uw), FNR(rows, uw)), One)
                         ELSE TPR(rows, uw) = Zero /\ FNR(rows, uw) = Zero
      /\ IF HasNeg(rows) THEN Eq(Add(TNR(rows, uw), FPR(rows, uw)), One)
                         ELSE TNR(rows, uw) = Zero /\ FPR(rows, uw) = Zero
LawSwap == rows # <<>> => \A uw \in BOOLEAN :
      LET s == SwapClass(rows) IN
      /\ TPR(s, uw) = TNR(rows, uw) /\ TNR(s, uw) = TPR(rows, uw)
      /\ FPR(s, uw) = FNR(rows, uw) /\ FNR(s, uw) = FPR(rows, uw)
      /\ Eq(Add(SelRate(s, uw), SelRate(rows, uw)), One)

\* ---- C11 laws --------------------------------------------------------------------------------
AllM(r, uw) == <<TPR(r, uw), FNR(r, uw), FPR(r, uw), TNR(r, uw), SelRate(r, uw), MeanPred(r, uw)>>
LawExpand == rows # <<>> => AllM(rows, TRUE) = AllM(Expand(rows), TRUE)
LawExpandUnit == rows # <<>> => AllM(Expand(rows), TRUE) = AllM(Expand(rows), FALSE)
\* scaling by c: every metric is num/den with both linear in the weights
LawScale == rows # <<>> => \A c \in 2..3 :
      /\ Frac(c * TPw(rows, TRUE), c * (TPw(rows, TRUE) + FNw(rows, TRUE))) = Frac(TPw(rows, TRUE), TPw(rows, TRUE) + FNw(rows, TRUE))
      /\ Frac(c * (TPw(rows, TRUE) + FPw(rows, TRUE)), c * Tot(rows, TRUE)) = SelRate(rows, TRUE)
LawAllOnes == (rows # <<>> /\ \A i \in Idx(rows) : Wof(rows[i]) = 1) => AllM(rows, TRUE) = AllM(rows, FALSE)

\* ---- emission ----------------------------------------------------------------------------------
M(r, uw) == [tpr |-> TPR(r, uw), fnr |-> FNR(r, uw), fpr |-> FPR(r, uw), tnr |-> TNR(r, uw),
             sel |-> SelRate(r, uw), mean |-> MeanPred(r, uw), count |-> Count(r)]
Obs == [rows |-> [i \in Idx(rows) |-> <<Yof(rows[i]), Pof(rows[i]), Wof(rows[i])>>],
        w |-> M(rows, TRUE), u |-> M(rows, FALSE),
        sw |-> M(SwapClass(rows), TRUE), su |-> M(SwapClass(rows), FALSE),
        expanded |-> [i \in Idx(Expand(rows)) |-> <<Yof(Expand(rows)[i]), Pof(Expand(rows)[i]), 1>>]]
EmitInv == (Emit /\ rows # <<>>) => PrintT(ToJson(Obs))
=============================================================================
