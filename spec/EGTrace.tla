------------------------------ MODULE EGTrace ------------------------------
(* Validation of recorded ExponentiatedGradient executions against EG.tla (C08, C10).          *)
(* The trace file holds many traces; each is validated from its own initial state (tid).        *)
(* A trace is ACCEPTED iff TLC prints <<"ACCEPT", tid>>; the register tid holds the longest     *)
(* matched prefix for the diagnosis of a rejection.                                             *)
EXTENDS EG, Json, IOUtils, TLCExt

Traces == JsonDeserialize(IOEnv.TRACE_FILE)      \* << [cfg |-> ..., events |-> << ... >>], ... >>
VARIABLES tid, l
tvars == <<vars, tid, l>>

Ev == Traces[tid].events
TInit == /\ tid \in 1..Len(Traces)
         /\ l = 1
         /\ cfg = [maxIter |-> Traces[tid].cfg.max_iter, runLP |-> Traces[tid].cfg.run_lp,
                   nuRank |-> Traces[tid].cfg.nu_rank, inf |-> Traces[tid].cfg.inf]
         /\ InitRest

IsEvent(name) == l <= Len(Ev) /\ Ev[l].ev = name /\ l' = l + 1 /\ tid' = tid

TOracle == /\ IsEvent("oracle")
           /\ OracleStep(Ev[l].idx, Ev[l].added)
           /\ nHs' = Ev[l].n_hs                                  \* logged number of stored predictors

\* qsum[h+1] = logged count of predictor h; qnum[h+1] = numerator of the chosen Q_EG[h] over (t+1):
\* both must be exactly the counts kept by the protocol (Q_EG = Qsum / (t+1))
At(s, h) == IF h + 1 <= Len(s) THEN s[h + 1] ELSE 0
TIter == /\ IsEvent("iter")
         /\ IterStep(Ev[l].g_eg, Ev[l].g_lp)
         /\ Ev[l].t = t
         /\ Ev[l].h_idx = firstIdx
         /\ Ev[l].src = src'[Len(src')]
         /\ Ev[l].n_hs = nHs
         /\ Ev[l].qexact
         /\ \A h \in 0..(MaxHs - 1) : qsum'[h] = At(Ev[l].qsum, h)
         /\ Ev[l].src = "EG" => \A h \in 0..(MaxHs - 1) : qsum'[h] = At(Ev[l].qnum, h)

TDone == /\ IsEvent("done")
         /\ SelectStep(Ev[l].best_iter + 1, Ev[l].thr)
         /\ Ev[l].last_iter = t - 1
         /\ Ev[l].best_gap_rank = gaps[Ev[l].best_iter + 1]

TAccept == /\ l = Len(Ev) + 1 /\ phase = "done"
           /\ PrintT(<<"ACCEPT", tid>>)
           /\ l' = l + 1 /\ UNCHANGED <<vars, tid>>

TNext == TOracle \/ TIter \/ TDone \/ TAccept
TSpec == TInit /\ [][TNext]_tvars
\* diagnosis of a rejection: the harness re-runs the trace alone with this invariant and takes the largest l
Diag == PrintT(<<"AT", tid, l>>)
=============================================================================
