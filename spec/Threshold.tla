----------------------------- MODULE Threshold -----------------------------
(* ThresholdOptimizer (C04, C05, C10, part of C13): the best parity-satisfying randomised      *)
(* threshold rule on the grid {0, 1/gs, .., 1}.                                                *)
(*                                                                                              *)
(* A row is (group, label, score level).  A deterministic rule for a group is a cut c and a    *)
(* direction: ">" predicts 1 iff level > c, "<" (only with flip) predicts 1 iff level <= c.     *)
(* Every metric is linear in the confusion counts of the group (fixed denominators), so a      *)
(* randomised rule achieves exactly the convex hull of the deterministic points, and the best   *)
(* objective at constraint value x is the upper hull Hull(g, x).  Hull is defined here          *)
(* WITHOUT any hull algorithm (max over exact points and over all straddling pairs).            *)
(* The code's algorithm (sort, monotone chain, searchsorted interpolation) is transcribed       *)
(* separately (CodeHull) and TLC checks that both agree.                                        *)
EXTENDS Rat, TLC, Json, FiniteSetsExt, SequencesExt

CONSTANTS N, G, L, GridSizes, Emit, NShards, Shard

NT == G * 2 * L
Gof(t) == (t \div (2 * L)) + 1
Yof(t) == (t \div L) % 2
Sof(t) == t % L

VARIABLE rows
vars == <<rows>>
Init == rows = <<>>
AddRow(t) == /\ Len(rows) < N
             /\ IF rows = <<>> THEN TRUE ELSE rows[Len(rows)] <= t
             /\ rows' = Append(rows, t)
Next == \E t \in 0..(NT - 1) : AddRow(t)
NextSim == \E t \in 0..(NT - 1) : Len(rows) < N /\ rows' = Append(rows, t)
Spec == Init /\ [][Next]_vars

All == 1..Len(rows)
Idx(g) == {i \in All : Gof(rows[i]) = g}
Cnt(T) == Cardinality(T)
\* precondition of C04/C05: every group contains both labels
Valid == \A g \in 1..G : (\E i \in Idx(g) : Yof(rows[i]) = 1) /\ (\E i \in Idx(g) : Yof(rows[i]) = 0)
SumRows == FoldSet(LAMBDA i, acc : acc + rows[i] * i, 0, All)
MyShard == SumRows % NShards = Shard

\* ---- deterministic rules and their metrics ---------------------------------------------------
Pred(c, fl, s) == IF fl THEN (IF s <= c THEN 1 ELSE 0) ELSE (IF s > c THEN 1 ELSE 0)
TP(g, c, fl) == Cnt({i \in Idx(g) : Yof(rows[i]) = 1 /\ Pred(c, fl, Sof(rows[i])) = 1})
FP(g, c, fl) == Cnt({i \in Idx(g) : Yof(rows[i]) = 0 /\ Pred(c, fl, Sof(rows[i])) = 1})
PosC(g) == Cnt({i \in Idx(g) : Yof(rows[i]) = 1})
NegC(g) == Cnt({i \in Idx(g) : Yof(rows[i]) = 0})
Metric(m, g, c, fl) ==
  LET tp == TP(g, c, fl)  fp == FP(g, c, fl)  p == PosC(g)  n == NegC(g) IN
  CASE m = "sel" -> Frac(tp + fp, p + n)
    [] m = "fpr" -> Frac(fp, n)
    [] m = "fnr" -> Frac(p - tp, p)
    [] m = "tpr" -> Frac(tp, p)
    [] m = "tnr" -> Frac(n - fp, n)
    [] m = "acc" -> Frac(tp + n - fp, p + n)
    [] m = "bal" -> Frac(tp * n + (n - fp) * p, 2 * p * n)
Flips(flip) == IF flip THEN {FALSE, TRUE} ELSE {FALSE}
Points(g, xm, ym, flip) == {<<Metric(xm, g, c, fl), Metric(ym, g, c, fl)>> : c \in (-1)..(L - 1), fl \in Flips(flip)}

\* ---- upper hull value at x, independent of any algorithm ------------------------------------
Interp(a, b, x) == Add(a[2], Mul(Sub(b[2], a[2]), Div(Sub(x, a[1]), Sub(b[1], a[1]))))
Hull(pts, x) ==
  LET exact == {p[2] : p \in {q \in pts : Eq(q[1], x)}}
      strad == {pp \in pts \X pts : Lt(pp[1][1], x) /\ Lt(x, pp[2][1])}
      interp == {Interp(pp[1], pp[2], x) : pp \in strad}
  IN MaxR(exact \cup interp)

\* ---- the code's algorithm: sort by (x, y), monotone chain, searchsorted interpolation --------
LtXY(a, b) == Lt(a[1], b[1]) \/ (Eq(a[1], b[1]) /\ Lt(a[2], b[2]))
Sorted(pts) == SetToSortSeq(pts, LtXY)
\* (r1.y - r0.y) * (r2.x - r0.x) <= (r2.y - r0.y) * (r1.x - r0.x)  => drop r1
Drop(r0, r1, r2) == Le(Mul(Sub(r1[2], r0[2]), Sub(r2[1], r0[1])), Mul(Sub(r2[2], r0[2]), Sub(r1[1], r0[1])))
RECURSIVE PopWhile(_, _)
PopWhile(sel, r2) == IF Len(sel) >= 2 /\ Drop(sel[Len(sel) - 1], sel[Len(sel)], r2)
                     THEN PopWhile(SubSeq(sel, 1, Len(sel) - 1), r2) ELSE sel
RECURSIVE Chain(_, _)
Chain(sel, rest) == IF rest = <<>> THEN sel ELSE Chain(Append(PopWhile(sel, rest[1]), rest[1]), Tail(rest))
CodeChain(pts) == Chain(<<>>, Sorted(pts))
\* searchsorted(side = right) - 1, decremented when x equals the hull vertex (except for the first grid point)
CodeIdx(h, x, first) == LET k == Cardinality({i \in 1..Len(h) : Le(h[i][1], x)})
                        IN IF ~first /\ Eq(h[k][1], x) THEN k - 1 ELSE k
CodeHull(pts, x, first) == LET h == CodeChain(pts)
                               k == CodeIdx(h, x, first)
                               p0 == Div(Sub(h[k + 1][1], x), Sub(h[k + 1][1], h[k][1]))
                           IN Add(Mul(p0, h[k][2]), Mul(Sub(One, p0), h[k + 1][2]))

\* ---- optima -----------------------------------------------------------------------------------
ConNames == <<"sel", "fpr", "fnr", "tpr", "tnr">>     \* selection_rate_parity / demographic_parity, FPR-, FNR-, TPR-, TNR-parity
ObjNames == <<"acc", "bal", "sel", "tpr", "tnr">>
EOObjs == <<"acc", "bal">>
GSeq == SetToSortSeq(GridSizes, <)
n == Len(rows)
NPos == Cnt({i \in All : Yof(rows[i]) = 1})
NNeg == n - NPos

SimpleAt(xm, ym, flip, x) ==
  LET RECURSIVE S(_)
      S(g) == IF g = 0 THEN Zero ELSE Add(S(g - 1), Mul(Frac(Cnt(Idx(g)), n), Hull(Points(g, xm, ym, flip), x)))
  IN S(G)
OptSimple(xm, ym, flip, gs) == MaxR({SimpleAt(xm, ym, flip, Frac(j, gs)) : j \in 0..gs})
YMin(flip, x) == MinR({Hull(Points(g, "fpr", "tpr", flip), x) : g \in 1..G})
ObjEO(obj, x, y) == IF obj = "acc" THEN Div(Add(Mul(OfInt(NPos), y), Mul(OfInt(NNeg), Sub(One, x))), OfInt(n))
                    ELSE Mul(<<1, 2>>, Add(y, Sub(One, x)))
OptEO(obj, flip, gs) == MaxR({ObjEO(obj, Frac(j, gs), YMin(flip, Frac(j, gs))) : j \in 0..gs})
\* best constant classifier ("all 0" = cut L-1, "all 1" = cut -1): same constraint value in every group
ConstObj(ym, c) == LET RECURSIVE S(_)
                       S(g) == IF g = 0 THEN Zero ELSE Add(S(g - 1), Mul(Frac(Cnt(Idx(g)), n), Metric(ym, g, c, FALSE)))
                   IN S(G)
BestConst(ym) == MaxR2(ConstObj(ym, L - 1), ConstObj(ym, -1))
BestConstEO(obj) == MaxR2(ObjEO(obj, Zero, Zero), ObjEO(obj, One, One))

\* ---- laws -------------------------------------------------------------------------------------
ConSet == {ConNames[k] : k \in 1..Len(ConNames)}
ObjSet == {ObjNames[k] : k \in 1..Len(ObjNames)}
LawCodeHull == Valid => \A xm \in ConSet \cup {"fpr"}, ym \in ObjSet, flip \in BOOLEAN, gs \in GridSizes, g \in 1..G : \A j \in 0..gs :
                  Eq(CodeHull(Points(g, xm, ym, flip), Frac(j, gs), j = 0), Hull(Points(g, xm, ym, flip), Frac(j, gs)))
LawConcave == Valid => \A xm \in ConSet, ym \in ObjSet, flip \in BOOLEAN, gs \in GridSizes, g \in 1..G : \A j \in 1..(gs - 1) :
                  LET H(k) == Hull(Points(g, xm, ym, flip), Frac(k, gs))
                  IN Le(Add(H(j - 1), H(j + 1)), Mul(<<2, 1>>, H(j)))
LawGeConst == Valid => /\ \A xm \in ConSet, ym \in ObjSet, flip \in BOOLEAN, gs \in GridSizes : Le(BestConst(ym), OptSimple(xm, ym, flip, gs))
                       /\ \A o \in {"acc", "bal"}, flip \in BOOLEAN, gs \in GridSizes : Le(BestConstEO(o), OptEO(o, flip, gs))
\* equalized odds: with p_ignore = (Hull_g - ymin)/(Hull_g - x) the group's (FPR, TPR) becomes (x, ymin); p_ignore in [0,1]
LawPIgnore == Valid => \A flip \in BOOLEAN, gs \in GridSizes, g \in 1..G : \A j \in 0..gs :
      LET x == Frac(j, gs)
          hg == Hull(Points(g, "fpr", "tpr", flip), x)
          ym == YMin(flip, x)
          pi == IF Eq(hg, x) THEN Zero ELSE Div(Sub(hg, ym), Sub(hg, x))
      IN /\ Le(x, ym)                                                   \* hull above the diagonal
         /\ Le(Zero, pi) /\ Le(pi, One)
         /\ Eq(Add(Mul(pi, x), Mul(Sub(One, pi), hg)), ym)              \* TPR equalised at ymin
\* more flipping never hurts, a finer nested grid never hurts
LawMonotone == Valid => \A xm \in ConSet, ym \in ObjSet :
      /\ \A gs \in GridSizes : Le(OptSimple(xm, ym, FALSE, gs), OptSimple(xm, ym, TRUE, gs))
      /\ \A a, b \in GridSizes : (b % a = 0) => \A flip \in BOOLEAN : Le(OptSimple(xm, ym, flip, a), OptSimple(xm, ym, flip, b))

\* ---- emission ---------------------------------------------------------------------------------
Fl == <<FALSE, TRUE>>
Obs == [rows |-> [i \in All |-> <<Gof(rows[i]), Yof(rows[i]), Sof(rows[i])>>],
        L |-> L, G |-> G, gs |-> GSeq,
        simple |-> [c \in 1..Len(ConNames) |-> [o \in 1..Len(ObjNames) |-> [f \in 1..2 |-> [k \in 1..Len(GSeq) |-> OptSimple(ConNames[c], ObjNames[o], Fl[f], GSeq[k])]]]],
        eo |-> [o \in 1..2 |-> [f \in 1..2 |-> [k \in 1..Len(GSeq) |-> OptEO(EOObjs[o], Fl[f], GSeq[k])]]],
        const |-> [o \in 1..Len(ObjNames) |-> BestConst(ObjNames[o])],
        const_eo |-> [o \in 1..2 |-> BestConstEO(EOObjs[o])]]
EmitInv == (Emit /\ Valid /\ MyShard) => PrintT(ToJson(Obs))
=============================================================================
