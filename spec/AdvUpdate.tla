----------------------------- MODULE AdvUpdate -----------------------------
(* The projected-gradient update of adversarial fairness training (C16), per parameter tensor W  *)
(* of the predictor:                                                                             *)
(*        g = gP - proj_{gA}(gP) - alpha * gA ,   proj_{gA}(gP) = (<gA, gP> / <gA, gA>) * gA      *)
(* with gP = dLP/dW, gA = dLA/dW and <.,.> the ordinary (Frobenius) inner product of the tensor, *)
(* i.e. the sum of the products of corresponding entries - for matrices with several rows too.   *)
(* The projection on a zero gradient is zero (gA = 0 => g = gP).  The adversary's parameters     *)
(* follow the plain gradient of LA.  Tensors are small integer matrices, alpha is rational.      *)
EXTENDS Rat, TLC, Json

CONSTANTS MaxRows, MaxCols, Emit, NShards, Shard

Vals == {-1, 0, 1}
AlphasDef == << <<0, 1>>, <<1, 2>>, <<1, 1>>, <<2, 1>> >>

VARIABLES nr, nc, gP, gA, ai
vars == <<nr, nc, gP, gA, ai>>
Init == /\ nr \in 1..MaxRows /\ nc \in 1..MaxCols /\ ai \in 1..Len(AlphasDef)
        /\ gP \in [1..(nr * nc) -> Vals] /\ gA \in [1..(nr * nc) -> Vals]
Next == UNCHANGED vars
Spec == Init /\ [][Next]_vars

RECURSIVE DotF(_, _, _)
DotF(a, b, k) == IF k = 0 THEN 0 ELSE a[k] * b[k] + DotF(a, b, k - 1)
Frob(a, b) == DotF(a, b, nr * nc)                     \* Frobenius inner product (entries flattened row-major)
Alpha == AlphasDef[ai]
\* the update direction, entry k
G(k) == LET nn == Frob(gA, gA) IN
        IF nn = 0 THEN OfInt(gP[k])
        ELSE Sub(Sub(OfInt(gP[k]), Frac(Frob(gA, gP) * gA[k], nn)), Mul(Alpha, OfInt(gA[k])))
\* what the update would be if the projection coefficient summed the inner products of ALL PAIRS OF ROWS
\* (a plausible slip for matrices); used only to count the states on which the two readings differ
RowPairs == LET RowDot(i, j) == LET RECURSIVE Dt(_) Dt(c) == IF c = 0 THEN 0 ELSE gA[(i - 1) * nc + c] * gP[(j - 1) * nc + c] + Dt(c - 1) IN Dt(nc)
                RECURSIVE Sm(_, _)
                Sm(i, j) == IF i = 0 THEN 0 ELSE IF j = 0 THEN Sm(i - 1, nr) ELSE RowDot(i, j) + Sm(i, j - 1)
            IN Sm(nr, nr)
Discriminating == Frob(gA, gA) # 0 /\ RowPairs # Frob(gA, gP)

\* ---- laws --------------------------------------------------------------------------------------
\* g + alpha*gA is orthogonal to gA
Orthogonal == LET RECURSIVE Sm(_)
                  Sm(k) == IF k = 0 THEN Zero ELSE Add(Sm(k - 1), Mul(Add(G(k), Mul(Alpha, OfInt(gA[k]))), OfInt(gA[k])))
              IN Sm(nr * nc) = Zero
ZeroAdversaryGradient == Frob(gA, gA) = 0 => \A k \in 1..(nr * nc) : G(k) = OfInt(gP[k])
\* for vectors (one row or one column) the row-pair reading coincides with the Frobenius product
VectorsAgree == (nr = 1) => RowPairs = Frob(gA, gP)

Hash == DotF(gP, [k \in 1..(nr * nc) |-> k], nr * nc) + 7 * DotF(gA, [k \in 1..(nr * nc) |-> k * k], nr * nc) + ai + 3 * nr + 5 * nc + 1000
MyShard == Hash % NShards = Shard
Obs == [nr |-> nr, nc |-> nc, gP |-> gP, gA |-> gA, alpha |-> Alpha, g |-> [k \in 1..(nr * nc) |-> G(k)], disc |-> Discriminating]
EmitInv == (Emit /\ MyShard) => PrintT(ToJson(Obs))
=============================================================================
