---------------------------- MODULE AdvSchedule ----------------------------
(* Step schedule of the adversarial estimators' fit (shuffle = FALSE), C17.                    *)
(*   cfg = [n, bs, ep, mi, stop, k, who]                                                        *)
(*     n rows, batch_size bs (-1 = all rows), epochs ep (-1 = derived from max_iter), max_iter   *)
(*     mi (-1 = unlimited), k callbacks of which callback `who` returns True at step `stop`       *)
(*     (stop = 0: never).                                                                        *)
(* One training step is one action; after every completed step - unless it exhausts max_iter -   *)
(* ALL callbacks are invoked (one action) with the step number; fit stops at the first step      *)
(* whose callbacks report True.  The abstract model is the sequence of row slices it was         *)
(* trained on: partial_fit(lo, hi) appends one slice, so fit is equivalent to issuing its slices *)
(* through partial_fit.                                                                          *)
EXTENDS Integers, Sequences, FiniteSets, TLC, Json

CONSTANTS MaxN, MaxBS, MaxEp, MaxIt, MaxStop, MaxK, Emit

Unl == -1
VARIABLES cfg, epoch, batch, nIter, phase, log, model
vars == <<cfg, epoch, batch, nIter, phase, log, model>>

CeilDiv(a, b) == (a + b - 1) \div b
BS(c)      == IF c.bs = Unl THEN c.n ELSE c.bs
Batches(c) == CeilDiv(c.n, BS(c))
Epochs(c)  == IF c.ep = Unl THEN CeilDiv(c.mi, Batches(c)) ELSE c.ep
Cfgs == {c \in [n : 1..MaxN, bs : {Unl} \cup 1..MaxBS, ep : {Unl} \cup 1..MaxEp, mi : {Unl} \cup 1..MaxIt,
                stop : 0..MaxStop, k : 1..MaxK, who : 1..MaxK] :
            /\ ~(c.ep = Unl /\ c.mi = Unl) /\ c.who <= c.k /\ (c.stop = 0 => c.who = 1)}

InitRest == /\ epoch = 0 /\ batch = 0 /\ nIter = 0 /\ log = <<>> /\ model = <<>>
            /\ phase = IF Epochs(cfg) = 0 THEN "done" ELSE "train"
Init == cfg \in Cfgs /\ InitRest

Lo == batch * BS(cfg)
Hi == IF (batch + 1) * BS(cfg) < cfg.n THEN (batch + 1) * BS(cfg) ELSE cfg.n

TrainStep == /\ phase = "train"
             /\ log' = Append(log, [ev |-> "step", lo |-> Lo, hi |-> Hi])
             /\ model' = Append(model, <<Lo, Hi>>)
             /\ nIter' = nIter + 1
             \* purposefully first the max_iter stop and then the callbacks
             /\ phase' = IF cfg.mi # Unl /\ nIter + 1 >= cfg.mi THEN "done" ELSE "callback"
             /\ UNCHANGED <<cfg, epoch, batch>>

Advance == IF batch + 1 < Batches(cfg) THEN /\ batch' = batch + 1 /\ epoch' = epoch /\ phase' = "train"
           ELSE IF epoch + 1 < Epochs(cfg) THEN /\ batch' = 0 /\ epoch' = epoch + 1 /\ phase' = "train"
           ELSE /\ batch' = batch /\ epoch' = epoch /\ phase' = "done"

\* all cfg.k callbacks are called with the current step number; callback cfg.who answers True at step cfg.stop
Callback == /\ phase = "callback"
            /\ log' = log \o [j \in 1..cfg.k |-> [ev |-> "cb", step |-> nIter, k |-> j]]
            /\ IF cfg.stop = nIter THEN phase' = "done" /\ UNCHANGED <<batch, epoch>> ELSE Advance
            /\ UNCHANGED <<cfg, nIter, model>>

Next == TrainStep \/ Callback
Spec == Init /\ [][Next]_vars

Steps == SelectSeq(log, LAMBDA e : e.ev = "step")
Cbs   == SelectSeq(log, LAMBDA e : e.ev = "cb")
Min(a, b) == IF a < b THEN a ELSE b
Planned == LET full == Epochs(cfg) * Batches(cfg) IN IF cfg.mi = Unl THEN full ELSE Min(full, cfg.mi)
Expected == IF cfg.stop > 0 /\ cfg.stop < Planned THEN cfg.stop ELSE Planned

TypeOK == nIter = Len(Steps) /\ Len(model) = nIter
\* every callback sees the step numbers 1, 2, ... exactly once each, in order
CbNumbers == \A i \in 1..Len(Cbs) : Cbs[i].step = ((i - 1) \div cfg.k) + 1 /\ Cbs[i].k = ((i - 1) % cfg.k) + 1
\* consecutive slices that cover 0..n-1 in every epoch
SliceOK == \A i \in 1..Len(Steps) :
             LET b == (i - 1) % Batches(cfg) IN
             /\ Steps[i].lo = b * BS(cfg)
             /\ Steps[i].hi = Min((b + 1) * BS(cfg), cfg.n)
             /\ Steps[i].lo < Steps[i].hi
Cover == \A i \in 1..Len(Steps) : (i % Batches(cfg) = 0) => Steps[i].hi = cfg.n
\* number of steps = min(epochs * ceil(n / bs), max_iter), cut at the stop step; no callback after the step that exhausts max_iter
AtDone == phase = "done" =>
            /\ nIter = Expected
            /\ Len(Cbs) = cfg.k * (IF cfg.mi # Unl /\ nIter >= cfg.mi THEN nIter - 1 ELSE nIter)
\* the model is exactly the slice sequence: the same model results from partial_fit on those slices
ModelIsSlices == \A i \in 1..Len(model) : model[i] = <<Steps[i].lo, Steps[i].hi>>

\* The inductive invariant of AdvScheduleInd.tla (proved there by Apalache for unbounded parameters), mapped onto
\* this specification's variables; TLC checks it here so that the two texts cannot drift apart unnoticed.
IndMapped == LET B == Batches(cfg)  E == Epochs(cfg)  mi == cfg.mi  stop == cfg.stop  nCb == Len(Cbs) \div cfg.k IN
   /\ 0 <= batch /\ batch < B /\ 0 <= epoch
   /\ (E = 0 => phase = "done" /\ nIter = 0 /\ nCb = 0)
   /\ (E > 0 => epoch < E)
   /\ (phase = "train" => /\ nIter = epoch * B + batch /\ nCb = nIter
                          /\ (mi = Unl \/ nIter < mi) /\ (stop = 0 \/ stop > nIter))
   /\ (phase = "callback" => /\ nIter = epoch * B + batch + 1 /\ nCb = nIter - 1
                             /\ (mi = Unl \/ nIter < mi) /\ (stop = 0 \/ stop >= nIter))
   /\ (phase = "train" => /\ Lo < Hi /\ Hi <= cfg.n /\ (batch = B - 1 => Hi = cfg.n)
                          /\ (batch + 1 < B => Hi = (batch + 1) * BS(cfg) /\ Hi < cfg.n))

Obs == [cfg |-> cfg, n_iter |-> nIter, log |-> log]
EmitInv == (Emit /\ phase = "done") => PrintT(ToJson(Obs))
=============================================================================
