"""C14 - base rate metrics are weighted confusion-matrix ratios for any binary encoding.

Spec: spec/Metrics.tla.  TLC (a) checks the laws (range, complement, class swap) on every
vector up to the bound and (b) emits each vector with the exact expected value of every
metric; each emitted state is replayed into fairlearn.metrics under every concrete encoding,
with and without weights, in canonical and shuffled row order.
"""
import json
import numpy as np

from harness.core import R, close, pmap

ENCODINGS = [
    # (neg value, pos value, pos_label argument, swapped?)  swapped: the *other* class is positive
    (0, 1, None, False), (0, 1, 1, False), (0, 1, 0, True),
    (-1, 1, None, False), (-1, 1, 1, False), (-1, 1, -1, True),
    ("x", "y", "y", False), ("x", "y", "x", True),
    (2, 5, 5, False), (2, 5, 2, True),
]


def cfg(N, W, emit, nshards=1, shard=0, sim=False):
    inv = ["LawRange", "LawComplement", "LawSwap", "LawExpand", "LawExpandUnit", "LawScale", "LawAllOnes", "EmitInv"]
    return (f"CONSTANTS N = {N} W = {W} Emit = {'TRUE' if emit else 'FALSE'} NShards = {nshards} Shard = {shard}\n"
            f"INIT Init\nNEXT {'NextSim' if sim else 'Next'}\n" + "".join(f"INVARIANT {i}\n" for i in inv) + "CHECK_DEADLOCK FALSE\n")


def _one(args):
    case, seed = args
    import fairlearn.metrics as fm
    import random
    out = []   # (sig, text, detail)
    rows = case["rows"]
    n = len(rows)
    orders = [list(range(n))]
    rnd = random.Random(hash((seed, json.dumps(rows))) & 0xFFFFFFFF)
    if n > 1:
        p = list(range(n)); rnd.shuffle(p); orders.append(p)
    nevals = 0
    for oi, order in enumerate(orders):
        rr = [rows[i] for i in order]
        containers = ("list",) if oi == 0 and n > 1 else (("ndarray",) if n > 1 else ("list", "ndarray"))
        for (neg, pos, pl, swapped) in ENCODINGS:
            val = (lambda c: pos if c == 1 else neg)
            yt = [val(r[0]) for r in rr]
            yp = [val(r[1]) for r in rr]
            wts = [r[2] for r in rr]
            for weighted in (True, False):
                exp = case[("s" if swapped else "") + ("w" if weighted else "u")]
                kw = {"sample_weight": list(wts)} if weighted else {}
                calls = {
                    "tpr": ("true_positive_rate", dict(pos_label=pl, **kw)),
                    "fnr": ("false_negative_rate", dict(pos_label=pl, **kw)),
                    "fpr": ("false_positive_rate", dict(pos_label=pl, **kw)),
                    "tnr": ("true_negative_rate", dict(pos_label=pl, **kw)),
                }
                if pl is not None:
                    calls["sel"] = ("selection_rate", dict(pos_label=pl, **kw))
                elif pos == 1:
                    calls["sel"] = ("selection_rate", dict(**kw))      # default pos_label = 1
                for key, (fname, kwargs) in calls.items():
                    nevals += 1
                    for container in containers:
                        a = yt if container == "list" else np.array(yt)
                        b = yp if container == "list" else np.array(yp)
                        k2 = dict(kwargs)
                        if "sample_weight" in k2 and container == "ndarray":
                            k2["sample_weight"] = np.array(k2["sample_weight"])
                        try:
                            got = getattr(fm, fname)(a, b, **k2)
                        except Exception as e:  # a valid call must not fail
                            out.append(({"fn": fname, "kind": "exception", "n1": n == 1}, f"{fname} raised {type(e).__name__}: {e}",
                                        {"y_true": yt, "y_pred": yp, "kwargs": repr(k2)}))
                            continue
                        if np.ndim(got) != 0:
                            out.append(({"fn": fname, "kind": "not_scalar", "weighted": weighted, "n1": n == 1},
                                        f"{fname} returned a non-scalar {got!r}", {"y_true": yt, "y_pred": yp, "kwargs": repr(k2)}))
                            continue
                        if not close(got, R(exp[key])):
                            out.append(({"fn": fname, "kind": "value", "weighted": weighted, "enc": repr((neg, pos, pl))},
                                        f"{fname} = {got!r}, specification says {exp[key]}", {"y_true": yt, "y_pred": yp, "kwargs": repr(k2)}))
                # fractional weights whose total is below one (e.g. globally normalised weights restricted to a subgroup)
                if oi == 0 and weighted and (neg, pos) == (0, 1) and pl is None:
                    tot = float(sum(wts)) * 4.0
                    fw = [x / tot for x in wts]
                    for fname, key in (("mean_prediction", "mean"), ("selection_rate", "sel"), ("true_positive_rate", "tpr"), ("false_positive_rate", "fpr")):
                        try:
                            got = getattr(fm, fname)(yt, yp, sample_weight=fw)
                            nevals += 1
                            if np.ndim(got) != 0 or not close(got, R(case["w"][key])):
                                out.append(({"fn": fname, "kind": "value", "weights": "fractional_total_below_one"}, f"{fname} with weights summing to 0.25 = {got!r}, specification {case['w'][key]}", {"y_pred": yp, "w": fw}))
                        except Exception as e2:
                            out.append(({"fn": fname, "kind": "exception", "weights": "fractional"}, f"{fname} raised {e2!r}", {"y_pred": yp}))
                # predictions stored with a narrow dtype (bool / uint8): the value of the metric does not depend on the storage type
                if oi == 0 and (neg, pos) == (0, 1) and pl is None:
                    for dt in (bool, np.uint8, np.int8):
                        for fname, key in (("mean_prediction", "mean"), ("selection_rate", "sel")):
                            try:
                                k3 = {"sample_weight": list(wts)} if weighted else {}
                                got = getattr(fm, fname)(np.array(yt), np.array(yp).astype(dt), **k3)
                                nevals += 1
                                e = R(case[("w" if weighted else "u")][key])
                                if np.ndim(got) != 0 or not close(got, e):
                                    out.append(({"fn": fname, "kind": "value", "dtype": np.dtype(dt).name, "weighted": weighted}, f"{fname} on {np.dtype(dt).name} predictions = {got!r}, specification {e}", {"y_pred": yp}))
                            except Exception as e2:
                                out.append(({"fn": fname, "kind": "exception", "dtype": np.dtype(dt).name}, f"{fname} on {np.dtype(dt).name} predictions raised {e2!r}", {"y_pred": yp}))
                # predictions / weights handed over as a column vector (n, 1) - also for n = 1
                if oi == 0 and not isinstance(neg, str):
                    for fname, kw2, expv in (("selection_rate", dict(pos_label=pos if pl is None else pl), None), ("mean_prediction", {}, "mean")):
                        if fname == "selection_rate" and swapped != (pl is not None and pl == neg):
                            pass
                        try:
                            k3 = dict(kw2)
                            if weighted:
                                k3["sample_weight"] = np.array(wts).reshape(-1, 1)
                            got = getattr(fm, fname)(yt, np.array(yp).reshape(-1, 1), **k3)
                            if fname == "selection_rate":
                                e = R(case[("w" if weighted else "u")]["sel"]) if k3["pos_label"] == pos else 1 - R(case[("w" if weighted else "u")]["sel"])
                            else:
                                e = neg + (pos - neg) * R(case[("w" if weighted else "u")]["mean"])
                            nevals += 1
                            if np.ndim(got) != 0:
                                out.append(({"fn": fname, "kind": "not_scalar", "container": "column", "n1": n == 1}, f"{fname} with (n,1) inputs returned non-scalar {got!r}", {"y_pred": yp}))
                            elif not close(got, e):
                                out.append(({"fn": fname, "kind": "value", "container": "column"}, f"{fname} with (n,1) inputs = {got!r}, specification {e}", {"y_pred": yp, "kw": repr(k3)}))
                        except Exception as e2:
                            out.append(({"fn": fname, "kind": "exception", "container": "column", "n1": n == 1}, f"{fname} with (n,1) inputs raised {e2!r}", {"y_pred": yp}))
                # mean_prediction: numeric encodings only; expected lo + (hi-lo)*mean of abstract class
                if not isinstance(neg, str) and not swapped:
                    nevals += 1
                    e = R(exp["mean"])
                    expv = neg + (pos - neg) * e
                    try:
                        got = fm.mean_prediction(yt, yp, **kw)
                        if np.ndim(got) != 0:
                            out.append(({"fn": "mean_prediction", "kind": "not_scalar", "weighted": weighted, "n1": n == 1}, f"mean_prediction returned non-scalar {got!r}",
                                        {"y_pred": yp, "kw": repr(kw)}))
                        elif not close(got, expv):
                            out.append(({"fn": "mean_prediction", "kind": "value", "weighted": weighted}, f"mean_prediction = {got!r}, specification says {expv}",
                                        {"y_pred": yp, "kw": repr(kw)}))
                    except Exception as e2:
                        out.append(({"fn": "mean_prediction", "kind": "exception"}, f"mean_prediction raised {e2!r}", {"y_pred": yp}))
            # count
            nevals += 1
            try:
                got = fm.count(yt, yp)
                if np.ndim(got) != 0 or got != case["u"]["count"]:
                    out.append(({"fn": "count", "kind": "value"}, f"count = {got!r}, expected {case['u']['count']}", {"y_true": yt}))
            except Exception as e2:
                out.append(({"fn": "count", "kind": "exception"}, f"count raised {e2!r}", {"y_true": yt}))
    single = len({r[0] for r in rows} | {r[1] for r in rows}) == 1
    return out, nevals, single


def run(ck):
    N, W = (5, 2) if ck.quick else (7, 2)
    ck.rule = ("every multiset of rows (true class, predicted class, weight in 1..W) of size 1..N is one TLC state; each is replayed "
               "under 10 encodings x weighted/unweighted x list/ndarray x canonical+shuffled order; non-trivial = distinct multiset")
    ck.tlc("Metrics", cfg(N + 1, W, False), f"laws N<={N+1} W={W}")
    if not ck.quick:
        ck.tlc("Metrics", cfg(5, 3, False), "laws N<=5 W=3")
    cases = ck.tlc_shards("Metrics", lambda k: cfg(N, W, True, 8, k), 8, f"emit N<={N} W={W}")
    ck.exhaustive = True
    if not ck.quick:
        sim = ck.tlc("Metrics", cfg(12, 3, True, sim=True), "simulate N<=12 W=3", workers=1,
                     simulate="num=300", depth=12)
        cases += sim.emitted
    _replay_cases(ck, cases)
    ck.assumptions += ["sklearn.metrics.confusion_matrix is the arithmetic the implementation delegates to; it is exercised, not trusted",
                       "float64 results compared with exact rationals at 1e-9 relative"]


def _replay_cases(ck, cases):
    res = pmap(_one, [(c, ck.seed) for c in cases])
    singles = 0
    for c, (viol, nev, single) in zip(cases, res):
        ck.impl += 1
        ck.evaluations += nev
        ck.nt(json.dumps(c["rows"]))
        singles += single
        for sig, text, detail in viol:
            ck.violation(sig, text, {"rows": c["rows"], **detail})
    ck.sample(cases[len(cases) // 2])
    ck.sample(cases[-1])
    ck.extra["single_distinct_value_vectors"] = singles
    if singles == 0:
        from harness.core import MachineryError
        raise MachineryError("vacuity: no single-distinct-value vector was explored")


def replay(ck, path):
    with open(path) as f:
        doc = json.load(f)
    cases = []
    # re-derive expected values through TLC for the stored rows is unnecessary: stored case has rows only;
    # re-run the emit for the needed size and filter
    want = {json.dumps(sorted(c["rows"])) for c in doc["cases"] if c}
    n = max(len(json.loads(w)) for w in want)
    allc = ck.tlc_shards("Metrics", lambda k: cfg(n, 3, True, 8, k), 8, f"emit N<={n}")
    cases = [c for c in allc if json.dumps(sorted(c["rows"])) in want]
    _replay_cases(ck, cases or allc[:50])
