"""C20 - inconsistent or unsupported inputs are rejected, never silently processed.

Spec: spec/Validate.tla - the table of calls (entry point x argument x accepted container x
defect) with the guard MustReject(call) <=> a defect is present; TLC checks that every argument
of every entry point has a defect case in every container and that every defective call has a
defect-free twin.  Binding A: every call of the table is materialised on seeded, otherwise valid
random data with the defect at a seeded position; MustReject => an exception is raised (any type;
NotFittedError by type for prediction before fit).  The defect-free twin is executed first: if
the twin itself is rejected the case is not exercised (listed under skipped_cases).
"""
import json
import random

import numpy as np

from harness.core import pmap, MachineryError
from harness import red_common as RC

MOMENTS = ["DemographicParity", "TruePositiveRateParity", "FalsePositiveRateParity", "EqualizedOdds", "ErrorRateParity", "ErrorRate"]
FAIR = ["demographic_parity_difference", "equalized_odds_ratio", "selection_rate_difference", "accuracy_score_group_min", "equal_opportunity_ratio"]


def wrap(v, container, name="col"):
    import pandas as pd
    if container == "list":
        return list(v)
    if container == "ndarray":
        return np.array(v)
    if container == "series":
        return pd.Series(list(v), name=name)
    return pd.DataFrame({name: list(v)})


def base_data(rnd, n=12):
    g = ["a", "b", "c"] * (n // 3)
    y = [0, 1] * (n // 2)
    for grp in "abc":                      # every group gets both labels whatever the shuffle
        idx = [i for i in range(n) if g[i] == grp]
        for j, i in enumerate(idx):
            y[i] = j % 2
    perm = list(range(n)); rnd.shuffle(perm)
    g = [g[i] for i in perm]; y = [y[i] for i in perm]
    c = [rnd.choice(["u", "v"]) for _ in range(n)]
    c[0], c[1] = "u", "v"
    yp = [rnd.randint(0, 1) for _ in range(n)]
    w = [round(rnd.uniform(0.2, 2.0), 3) for _ in range(n)]
    X = [[rnd.random(), float(rnd.randint(0, 1))] for _ in range(n)]
    return {"X": np.array(X), "y": y, "g": g, "c": c, "yp": yp, "w": w, "n": n}


def damage(v, defect, rnd):
    v = list(v)
    if defect == "none":
        return v
    k = {"short1": -1, "short2": -2, "long1": 1, "long3": 3}[defect]
    for _ in range(abs(k)):
        pos = rnd.randrange(len(v) + (1 if k > 0 else 0))
        if k < 0:
            del v[min(pos, len(v) - 1)]
        else:
            v.insert(pos, v[rnd.randrange(len(v))])
    return v


def label_defect(y, defect, rnd):
    y = list(y)
    pos = rnd.randrange(len(y))
    if defect == "label2":
        y[pos] = 2
    elif defect == "labelhalf":
        y = [float(v) for v in y]; y[pos] = 0.5
    elif defect == "labelneg1":
        y = [-1 if v == 0 else 1 for v in y]
    return y


def build(call, variant, seed, with_defect):
    """returns a zero-argument callable performing the call (with or without its defect)"""
    import pandas as pd
    import fairlearn.metrics as fm
    import fairlearn.reductions as red
    from fairlearn.postprocessing import ThresholdOptimizer
    from fairlearn.preprocessing import CorrelationRemover
    from sklearn.linear_model import LogisticRegression
    rnd = random.Random(hash((seed, json.dumps(call, sort_keys=True), variant)) & 0xFFFFFFFF)
    d = base_data(rnd)
    ep, arg, cont, defect = call["ep"], call["arg"], call["container"], call["defect"]
    dfx = defect if with_defect else "none"
    vals = {"y_true": d["y"], "y": d["y"], "y_pred": d["yp"], "sensitive_features": d["g"], "control_features": d["c"], "sample_param": d["w"], "sample_weight": d["w"]}

    def A(name):
        v = vals[name]
        if name == arg:
            if dfx in ("label2", "labelneg1", "labelhalf"):
                v = label_defect(v, dfx, rnd)
            else:
                v = damage(v, dfx, rnd)
            return wrap(v, cont, name if name not in ("y", "y_true", "y_pred") else "label")
        return list(v) if name not in ("y",) else np.array(v)
    if ep == "MetricFrame":
        return lambda: fm.MetricFrame(metrics=fm.selection_rate, y_true=A("y_true"), y_pred=A("y_pred"), sensitive_features=A("sensitive_features"),
                                      control_features=A("control_features"), sample_params={"sample_weight": A("sample_param")})
    if ep == "fairness_metric":
        fn = getattr(fm, FAIR[variant % len(FAIR)])
        return lambda: fn(A("y_true"), A("y_pred"), sensitive_features=A("sensitive_features"), sample_weight=A("sample_weight"))
    if ep == "moment_load_data":
        cls = getattr(red, MOMENTS[variant % len(MOMENTS)])
        return lambda: cls().load_data(d["X"], A("y"), sensitive_features=A("sensitive_features"), control_features=A("control_features"))
    if ep in ("ExponentiatedGradient_fit", "GridSearch_fit"):
        mk = (lambda: red.ExponentiatedGradient(RC.ExactLearner(), red.DemographicParity(), max_iter=3)) if ep.startswith("Exp") else \
             (lambda: red.GridSearch(RC.ExactLearner(), [red.EqualizedOdds, red.DemographicParity][variant % 2](), grid_size=3))
        return lambda: mk().fit(d["X"], A("y"), sensitive_features=A("sensitive_features"), control_features=A("control_features"))
    if ep == "ThresholdOptimizer_fit":
        cons = ["demographic_parity", "equalized_odds", "true_positive_rate_parity"][variant % 3]
        return lambda: ThresholdOptimizer(estimator=LogisticRegression(), constraints=cons, predict_method="predict_proba").fit(d["X"], A("y"), sensitive_features=A("sensitive_features"))
    if ep == "ThresholdOptimizer_predict":
        to = ThresholdOptimizer(estimator=LogisticRegression(), predict_method="predict_proba").fit(d["X"], d["y"], sensitive_features=d["g"])
        return lambda: to.predict(d["X"], sensitive_features=A("sensitive_features"), random_state=0)
    raise MachineryError(f"unknown entry point {ep}")


def build_config(call, variant, seed):
    """(defective callable, twin callable) for the defects that are not tied to a data argument"""
    import pandas as pd
    import fairlearn.metrics as fm
    import fairlearn.reductions as red
    from fairlearn.postprocessing import ThresholdOptimizer
    from fairlearn.preprocessing import CorrelationRemover
    from fairlearn.adversarial import AdversarialFairnessClassifier
    from sklearn.linear_model import LogisticRegression
    rnd = random.Random(hash((seed, json.dumps(call, sort_keys=True), variant)) & 0xFFFFFFFF)
    d = base_data(rnd)
    X, y, g, c, yp = d["X"], d["y"], d["g"], d["c"], d["yp"]
    df = call["defect"]
    mf = lambda **kw: fm.MetricFrame(metrics=fm.selection_rate, y_true=y, y_pred=yp, **kw)
    conts = ["list", "ndarray", "series", "frame"]
    cw = conts[variant % 4]
    T = {
        "dup_names_sf_cf": (lambda: mf(sensitive_features={"a": g}, control_features={"a": c}), lambda: mf(sensitive_features={"a": g}, control_features={"b": c})),
        "dup_names_df": (lambda: mf(sensitive_features=pd.DataFrame(np.c_[g, c], columns=["a", "a"])), lambda: mf(sensitive_features=pd.DataFrame(np.c_[g, c], columns=["a", "b"]))),
        "int_column_name": (lambda: mf(sensitive_features=pd.DataFrame({0: g})), lambda: mf(sensitive_features=pd.DataFrame({"0": g}))),
        "int_series_name": (lambda: mf(sensitive_features=pd.Series(g, name=3)), lambda: mf(sensitive_features=pd.Series(g, name="3"))),
        "int_dict_key": (lambda: mf(sensitive_features={1: g}), lambda: mf(sensitive_features={"1": g})),
        "missing_sf": None,
        "degenerate_group": None, "control_features": None, "eo_with_selection_rate": None, "unknown_constraint": None, "unknown_objective": None, "estimator_none": None,
        "both_bounds": (lambda: getattr(red, MOMENTS[variant % 5])(difference_bound=[0.1, 0.0, 0, 1e-9, 0.5][(variant // 5 + variant) % 5], ratio_bound=0.8),
                        lambda: getattr(red, MOMENTS[variant % 5])(ratio_bound=0.8)),
        "ratio_zero": (lambda: getattr(red, MOMENTS[variant % 5])(ratio_bound=0.0), lambda: getattr(red, MOMENTS[variant % 5])(ratio_bound=1.0)),
        "ratio_above_one": (lambda: getattr(red, MOMENTS[variant % 5])(ratio_bound=1.0 + 10.0 ** -(variant % 4)), lambda: getattr(red, MOMENTS[variant % 5])(ratio_bound=0.999)),
        "ratio_negative": (lambda: getattr(red, MOMENTS[variant % 5])(ratio_bound=-0.5), lambda: getattr(red, MOMENTS[variant % 5])(ratio_bound=0.5)),
        "costs_negative": (lambda: red.ErrorRate(costs={"fp": -1.0, "fn": 1.0}), lambda: red.ErrorRate(costs={"fp": 1.0, "fn": 1.0})),
        "costs_zero": (lambda: red.ErrorRate(costs={"fp": 0.0, "fn": 0.0}), lambda: red.ErrorRate(costs={"fp": 0.0, "fn": 1.0})),
        "costs_missing_key": (lambda: red.ErrorRate(costs={"fp": 1.0}), lambda: red.ErrorRate(costs={"fp": 1.0, "fn": 2.0})),
        "costs_not_dict": (lambda: red.ErrorRate(costs=[1.0, 1.0]), lambda: red.ErrorRate(costs=None)),
        "constraint_weight_high": (lambda: red.GridSearch(RC.ExactLearner(), red.DemographicParity(), constraint_weight=1.0 + 10.0 ** -(variant % 3)), lambda: red.GridSearch(RC.ExactLearner(), red.DemographicParity(), constraint_weight=1.0)),
        "constraint_weight_low": (lambda: red.GridSearch(RC.ExactLearner(), red.DemographicParity(), constraint_weight=-0.01), lambda: red.GridSearch(RC.ExactLearner(), red.DemographicParity(), constraint_weight=0.0)),
        "selection_rule": (lambda: red.GridSearch(RC.ExactLearner(), red.DemographicParity(), selection_rule="best"), lambda: red.GridSearch(RC.ExactLearner(), red.DemographicParity())),
        "constraints_not_moment": (lambda: red.GridSearch(RC.ExactLearner(), "demographic_parity"), lambda: red.GridSearch(RC.ExactLearner(), red.DemographicParity())),
        "missing_column": (lambda: CorrelationRemover(sensitive_feature_ids=[5]).fit(X), lambda: CorrelationRemover(sensitive_feature_ids=[1]).fit(X)),
        "missing_named_column": (lambda: CorrelationRemover(sensitive_feature_ids=["zz"]).fit(pd.DataFrame(X, columns=["p", "q"])), lambda: CorrelationRemover(sensitive_feature_ids=["q"]).fit(pd.DataFrame(X, columns=["p", "q"]))),
    }
    if call["ep"] in ("ExponentiatedGradient_fit", "GridSearch_fit") and df == "missing_sf":
        mk = (lambda: red.ExponentiatedGradient(RC.ExactLearner(), red.DemographicParity(), max_iter=3)) if call["ep"].startswith("Exp") else (lambda: red.GridSearch(RC.ExactLearner(), red.DemographicParity(), grid_size=3))
        return (lambda: mk().fit(X, np.array(y))), (lambda: mk().fit(X, np.array(y), sensitive_features=g))
    if call["ep"] == "ThresholdOptimizer_fit":
        if variant % 2:
            fitted = LogisticRegression().fit(X, y)
            to = lambda **kw: ThresholdOptimizer(**{"estimator": fitted, "prefit": True, "predict_method": "predict_proba", **kw})      # prefit estimator
        else:
            to = lambda **kw: ThresholdOptimizer(**{"estimator": LogisticRegression(), "predict_method": "predict_proba", **kw})
        twin = lambda: to().fit(X, y, sensitive_features=wrap(g, cw, "sf"))
        yd = list(y)
        grp = rnd.choice("abc"); lab = rnd.randint(0, 1)
        yd = [lab if gg == grp else v for v, gg in zip(yd, g)]
        cases = {"missing_sf": lambda: to().fit(X, y), "degenerate_group": lambda: to(constraints=["demographic_parity", "equalized_odds"][variant % 2]).fit(X, wrap(yd, cw, "label"), sensitive_features=g),
                 "control_features": lambda: to().fit(X, y, sensitive_features=g, control_features=wrap(c, cw, "cf")),
                 "eo_with_selection_rate": lambda: to(constraints="equalized_odds", objective=["selection_rate", "true_positive_rate", "true_negative_rate"][variant % 3]).fit(X, y, sensitive_features=g),
                 "unknown_constraint": lambda: to(constraints="false_discovery_rate_parity").fit(X, y, sensitive_features=g),
                 "unknown_objective": lambda: to(objective=["false_positive_rate", "f1_score"][variant % 2]).fit(X, y, sensitive_features=g),
                 "estimator_none": lambda: to(estimator=None).fit(X, y, sensitive_features=g)}
        return cases[df], twin
    if call["ep"] == "not_fitted":
        nf = {"EG_predict": lambda: red.ExponentiatedGradient(RC.ExactLearner(), red.DemographicParity()).predict(X),
              "EG_pmf_predict": lambda: red.ExponentiatedGradient(RC.ExactLearner(), red.DemographicParity())._pmf_predict(X),
              "GS_predict": lambda: red.GridSearch(RC.ExactLearner(), red.DemographicParity()).predict(X),
              "GS_predict_proba": lambda: red.GridSearch(RC.ExactLearner(), red.DemographicParity()).predict_proba(X),
              "TO_predict": lambda: ThresholdOptimizer(estimator=LogisticRegression()).predict(X, sensitive_features=g),
              "CR_transform": lambda: CorrelationRemover(sensitive_feature_ids=[0]).transform(X),
              "ADV_predict": lambda: AdversarialFairnessClassifier(backend="torch").predict(X)}
        return nf[df], (lambda: None)
    return T[df]


def _one(job):
    call, variant, seed = job
    from sklearn.exceptions import NotFittedError
    detail = {"call": call, "variant": variant}
    try:
        if call["arg"] == "-":
            bad, twin = build_config(call, variant, seed)
        else:
            bad, twin = build(call, variant, seed, True), build(call, variant, seed, False)
    except MachineryError:
        raise
    except Exception as e:
        return ("skipped", f"could not build the call: {e!r}", detail)
    try:
        twin()
    except Exception as e:
        return ("skipped", f"defect-free twin rejected: {type(e).__name__}: {str(e)[:120]}", detail)
    if not call["must_reject"]:
        return ("ok", "twin accepted", detail)
    try:
        bad()
    except NotFittedError:
        return ("ok", "NotFittedError", detail)
    except Exception as e:
        if call["not_fitted"]:
            return ("violation", f"prediction before fit raised {type(e).__name__} instead of NotFittedError", detail)
        return ("ok", type(e).__name__, detail)
    return ("violation", "defective call was accepted", detail)


def run(ck):
    ck.rule = ("Validate.tla: every (entry point, argument, container, defect) of the table is one TLC state; each defective call is materialised on seeded random data with the defect at a "
               "seeded position (2 variants per call in quick, 6 in thorough; variants rotate over moments / metric functions / constraints); twins executed first")
    calls = ck.tlc("Validate", "CONSTANTS Emit = TRUE\nSPECIFICATION Spec\nINVARIANT TableOK\nINVARIANT EmitInv\nCHECK_DEADLOCK FALSE\n", "call table", workers=1, timeout=600).emitted
    ck.exhaustive = True
    nvar = 2 if ck.quick else 6
    # variants rotate over the moment classes / metric functions / constraints: always cover all of them
    per_ep = {"moment_load_data": len(MOMENTS), "fairness_metric": len(FAIR), "ThresholdOptimizer_fit": 6, "constructor": 10}
    jobs = [(c, v, ck.seed) for c in calls for v in range(max(nvar, per_ep.get(c["ep"], 0))) if c["must_reject"]] + [(c, 0, ck.seed) for c in calls if not c["must_reject"]]
    res = pmap(_one, jobs, chunksize=4)
    nskip = nex = 0
    for (call, v, _), (verdict, text, detail) in zip(jobs, res):
        if verdict == "skipped":
            nskip += 1
            ck.skipped.append({"call": call, "why": text})
            continue
        ck.impl += 1
        if call["must_reject"]:
            nex += 1
            ck.nt(json.dumps([call, v], sort_keys=True))
        if verdict == "violation":
            ck.violation({"ep": call["ep"], "arg": call["arg"], "defect": call["defect"], "container": call["container"]}, f"{call['ep']}({call['arg']} as {call['container']}, defect {call['defect']}): {text}", detail)
    ck.evaluations = len(jobs)
    ck.sample(calls[0]); ck.sample(calls[len(calls) // 2])
    ck.extra.update({"calls_in_table": len(calls), "defective_calls_exercised": nex, "unexercised": nskip})
    if nskip > 0.05 * len(jobs):
        # which ones?
        from collections import Counter
        top = Counter((s["call"]["ep"], s["call"]["arg"], s["call"]["container"], s["why"][:60]) for s in ck.skipped).most_common(6)
        raise MachineryError(f"{nskip} of {len(jobs)} cases unexercised (> 5%): {top}")
    ck.assumptions += ["any exception type counts as rejection, except prediction before fit which must raise NotFittedError",
                       "a defect-free twin that is itself rejected is a container-acceptance question (C12), not C20: listed under skipped_cases"]


def replay(ck, path):
    run(ck)
