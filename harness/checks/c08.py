"""C08 - ExponentiatedGradient meets the saddle-point guarantees certified by best_gap_.

Three specifications:
  Game.tla    - TLC proves on every game of a bounded rational family that the certificate, as the
                code computes it, implies error <= OPT + 2g and violation <= (1+2g)/B;
  EG.tla      - the iteration / termination / selection protocol; TLC checks (all bounded
                behaviours) that stopping before max_iter implies a certified gap below nu, etc.;
  Moments.tla - exact payoff table of the whole hypothesis class per TLC-emitted dataset.
Binding A: real EG fits (exact learner, hooks on) checked against the exact table: weights_ is a
distribution over predictors_, TRUE duality gap of the returned Q against the recorded multiplier
<= best_gap_, both guarantees (OPT from an LP over the table), early stop => best_gap_ < nu.
Binding B: the recorded iteration traces are validated by TLC against EGTrace.tla.
"""
import json

from harness.core import pmap, MachineryError
from harness import mom_common as M
from harness import eg_common as E

EG_INV = ["TypeOK", "QsumTotal", "QsumOnStored", "SrcRule", "EarlyStopCertified", "NoOverrun", "BestGapCertified", "BestIsLastMin", "IndMapped"]


def eg_cfg(maxiter, maxrank, maxhs, evalcap=1, evalcaplp=2, trace=False):
    head = f"CONSTANTS MaxIterB = {maxiter} MaxRankB = {maxrank} MaxHs = {maxhs} MinIter = 5 EvalCap = {evalcap} EvalCapLP = {evalcaplp}\n"
    if trace:
        return head + "SPECIFICATION TSpec\n" + "".join(f"INVARIANT {i}\n" for i in EG_INV if i not in ("TypeOK",)) + "CHECK_DEADLOCK FALSE\n"
    return head + "SPECIFICATION Spec\n" + "".join(f"INVARIANT {i}\n" for i in EG_INV) + "CHECK_DEADLOCK FALSE\n"


def game_cfg(NH, NK, D, B, U, CMax):
    return (f"CONSTANTS NH = {NH} NK = {NK} D = {D} B = {B} U = {U} CMax = {CMax}\nSPECIFICATION Spec\nINVARIANT CodeLLowIsTrueMin\n"
            "INVARIANT GapNonNegative\nINVARIANT ErrorGuarantee\nINVARIANT ViolationGuarantee\nCHECK_DEADLOCK FALSE\n")


def make_jobs(ck, want_c10=False):
    if ck.quick:
        tabs, cap, per = [(5, 2, 2), (4, 3, 2), (4, 2, 3)], 150, 4
    else:
        tabs, cap, per = [(6, 2, 2), (5, 3, 2), (5, 2, 3), (4, 3, 3)], 1500, 6
    cases = []
    for (N, G, F) in tabs:
        cases += ck.tlc_shards("Moments", lambda k: M.cfg(N, G, 1, F, True, mode="table", laws=(), nshards=12, shard=k), 12,
                               f"payoff tables N<={N} G={G} F={F}", same_space=True, timeout=3000)
    rnd = ck.rng("c08")
    rnd.shuffle(cases)
    cases = cases[:cap]
    jobs = []
    # larger TLC-simulated datasets (N <= 12, 3 groups, 3 feature values): many more iterations without the LP step, where the
    # order in which predictors are first used differs from the order in which they were created
    sim = ck.tlc("Moments", M.cfg(12, 3, 1, 3, True, mode="table", laws=(), sim=True), "simulate larger payoff tables (N<=12 G=3 F=3)", workers=1,
                 simulate="num=%d" % (10 if ck.quick else 60), depth=12, timeout=1500)
    for c in [c for c in sim.emitted if len(c["rows"]) >= 6]:
        for j in range(2):
            conf = (M.KINDS[rnd.randrange(5)], rnd.randrange(3), rnd.choice([0.02, 0.05, 0.2]), rnd.choice([10, 20, 40]), rnd.random() < 0.25,
                    rnd.choice([0.5, 2.0]), rnd.choice([1e-6, 1e-3]), rnd.randrange(2))
            jobs.append((c, conf, ck.seed, want_c10))
    for c in cases:
        for j in range(per):
            kind = M.KINDS[(j + rnd.randrange(5)) % 5]
            conf = (kind, rnd.randrange(3), rnd.choice([0.05, 0.2, 0.5]), rnd.choice([1, 3, 8, 8, 20, 50]), rnd.random() < 0.6,
                    rnd.choice([0.5, 2.0]), rnd.choice([None, 1e-3, 0.05, 0.3, 0.0]), rnd.randrange(2))
            jobs.append((c, conf, ck.seed, want_c10))
    return jobs


def validate(ck, recs):
    traces = [r["trace"] for r in recs if r.get("trace")]
    acc, diags = ck.validate_traces("EGTrace", traces, eg_cfg(60, 200, 40, 4, 8, trace=True), "EG traces", shards=12)
    return traces, acc, diags


def run(ck):
    ck.rule = ("datasets: usable TLC states of Moments.tla (table mode; F feature values, hypothesis class = all maps feature -> label); "
               "configurations: moment x bound x eps x max_iter x LP step x eta0 x nu (seeded sample per dataset); every fit also yields one trace validated by EGTrace.tla")
    if ck.quick:
        ck.tlc("Game", game_cfg(2, 2, 2, 2, 2, 2), "certificate theorem NH=2 NK=2 D=2", timeout=1500)
        ck.tlc("EG", eg_cfg(7, 1, 2), "protocol invariants max_iter<=7 ranks<=1", timeout=1500)
    else:
        ck.tlc("Game", game_cfg(2, 2, 3, 2, 2, 2), "certificate theorem NH=2 NK=2 D=3", timeout=3000)
        ck.tlc("Game", game_cfg(3, 1, 3, 3, 2, 2), "certificate theorem NH=3 NK=1 D=3 B=3", timeout=3000)
        ck.tlc("EG", eg_cfg(7, 2, 2), "protocol invariants max_iter<=7 ranks<=2", timeout=3000)
    jobs = make_jobs(ck)
    recs = pmap(E.run_fit, jobs, chunksize=4)
    early = lp_src = feas = 0
    for (c, conf, *_), r in zip(jobs, recs):
        ck.impl += 1
        ck.nt(json.dumps([c["rows"], conf]))
        for sig, text, detail in r["c08"]:
            ck.violation(sig, text, {"rows": c["rows"], **detail})
        if r.get("skipped"):
            ck.skipped.append({"rows": c["rows"], "config": conf, "why": r["skipped"]})
        info = r.get("info") or {}
        early += bool(info.get("early")); lp_src += info.get("src") == "LP"; feas += bool(info.get("feasible"))
    # specification growth (refinement tier only): cost-sensitive objective ErrorRate(costs); the guarantees are then about the cost-weighted error
    rnd = ck.rng("c08cost")
    cjobs = [(j[0], tuple(j[1]) + (rnd.choice([[2, 1], [1, 3]]),), j[2], False) for j in jobs[:: max(1, len(jobs) // (60 if ck.quick else 400))]]
    for (c, conf, *_), r in zip(cjobs, pmap(E.run_fit, cjobs, chunksize=4)):
        for sig, text, detail in r["c08"]:
            ck.note_drift(f"[extension cost-sensitive objective {conf[8]}] {text}")
    ck.extra["extension_cost_objective_fits"] = len(cjobs)
    traces, acc, diags = validate(ck, recs)
    for i, ok in enumerate(acc):
        if not ok:
            dg = diags.get(i, {})
            ck.violation({"api": "protocol", "kind": "trace_rejected", "next_event": (dg.get("next_event") or {}).get("ev")},
                         f"EG iteration trace rejected by EGTrace.tla after {dg.get('matched_events')} of {dg.get('of')} events; next event {dg.get('next_event')}",
                         {"trace": traces[i], "diag": dg})
    ck.evaluations = len(jobs)
    ck.extra.update({"fits": len(jobs), "traces_validated_by_tlc": len(traces), "traces_accepted": sum(acc), "fits_stopped_early": early,
                     "returned_iterate_from_LP": lp_src, "feasible_instances": feas,
                     "max_true_gap_minus_best_gap": max([(r["info"]["true_gap"] - r["info"]["best_gap"]) for r in recs if r.get("info") and "true_gap" in r["info"]] or [0])})
    good = [r for r in recs if r.get("trace")]
    if good:
        ck.sample({"config": good[0]["conf"], "info": good[0]["info"], "trace_head": good[0]["trace"]["events"][:6]})
    if early == 0 or lp_src == 0 or feas == 0:
        raise MachineryError(f"vacuity: early stops {early}, LP iterates {lp_src}, feasible {feas}")
    from harness import extras2
    # Apalache: the termination / certification clauses are inductive for ALL max_iter, nu and gap values (EGInd.tla)
    extras2.apalache(ck, "EGInd", "Init", "IndInv", 0, "unbounded EG stop rule: Init => IndInv")
    extras2.apalache(ck, "EGInd", "IndInit", "IndInv", 1, "unbounded EG stop rule: IndInv /\\ Next => IndInv'")
    ck.assumptions += ["multipliers come from exp / HiGHS: certificate inequalities are evaluated in float64 (slack 1e-7) against TLC's exact payoff table; OPT by a float LP over that table",
                       "early-stop clause checked as best_gap_ < nu + 1e-8 (the code selects the last iterate within 1e-8 of the minimum gap)",
                       "gaps enter TLC as dense ranks (order-isomorphic), Q_EG as exact integer numerators over t+1"]


def replay(ck, path):
    run(ck)
