"""C07 - reduction identity: sample re-weighting is the exact gradient of the Lagrangian.

Spec: spec/Moments.tla - U, SW (signed weights), objective weights, ProjectLambda; TLC checks
IdentityOK (unit multipliers x all 0/1 predictors), LossIdentity, ProjectOK and ReductionExact
(argmin of the relabelled/reweighted 0/1 error == argmin of error + lambda.gamma over the whole
hypothesis class) on every small dataset.  Binding A: signed_weights(unit lambda_j) against the
exact rational vector for every j, additivity/homogeneity with random lambda, the identity
re-evaluated on the code's own gamma and signed_weights, project_lambda, the loss-moment
identity, ErrorRate weights, and the relabel/reweight step of _Lagrangian / GridSearch observed
through a recording learner.
"""
import json
import random
from fractions import Fraction

import numpy as np

from harness.core import R, close, pmap
from harness import mom_common as M
from harness.checks import c06


class Recorder:
    """learner that records (y, sample_weight) of every fit; predicts the weighted majority label"""
    log = None

    def __init__(self):
        pass

    def get_params(self, deep=False):
        return {}

    def set_params(self, **kw):
        return self

    def fit(self, X, y, sample_weight=None):
        Recorder.log.append((np.asarray(y).tolist(), np.asarray(sample_weight, dtype=float).tolist()))
        w = np.asarray(sample_weight, dtype=float)
        self.c_ = int(np.dot(w, np.asarray(y)) * 2 >= w.sum())
        return self

    def predict(self, X):
        return np.full(len(X), self.c_)


def _one(args):
    case, seed = args
    import pandas as pd
    import fairlearn.reductions as red
    from fairlearn.reductions._exponentiated_gradient._lagrangian import _Lagrangian
    out = []
    nev = 0
    S = case["S"]
    hc = S > 1
    d = M.materialise(case, seed, 1)
    n = d["n"]
    order = d["order"]
    rnd = random.Random(hash((seed, "c07", json.dumps(case["rows"]))) & 0xFFFFFFFF)
    detail0 = {"data": {k: d[k] for k in ("g", "y", "c")}}
    for mo in case["moments"]:
        kind = mo["kind"]
        keys = [M.index_key(e, hc) for e in mo["index"]]
        for rq, ratio in enumerate(case["ratios"]):
            pr = mo["per_ratio"][rq]
            sig0 = {"moment": kind, "control": hc, "ratio_is_one": ratio[0] == ratio[1]}
            detail = {**detail0, "moment": kind, "ratio": ratio}
            try:
                m = M.make_moment(kind, ratio)
                if (rq + n) % 2 == 1 and n > 1:
                    # the same moment object was loaded before with the same rows in ANOTHER order and already asked for signed weights
                    d0 = M.materialise(case, seed, 2)
                    M.load(m, d0, hc)
                    if len(m.index):
                        m.signed_weights(pd.Series(1.0, index=m.index))
                        m.gamma(M.vec_predictor(np.zeros(n)))
                m = M.load(m, d, hc)
                if set(m.index) != set(keys):
                    continue        # C06's business
                nev += 1
                sw = [[R(x) for x in row] for row in pr["sw"]]     # canonical row i, index j
                # unit multipliers
                for j, key in enumerate(keys):
                    lam = pd.Series(0.0, index=m.index)
                    lam[key] = 1.0
                    w = np.asarray(m.signed_weights(lam), dtype=float)
                    for pos in range(n):
                        if not close(w[pos], sw[order[pos]][j]):
                            out.append(({"api": "signed_weights", "kind": "value", "sign": key[0], **sig0},
                                        f"{kind} r={ratio}: signed_weights(unit {key})[row {pos}] = {w[pos]!r}, specification {sw[order[pos]][j]}", detail))
                            break
                # linearity + the identity on the code's own quantities, random lambda >= 0 and soft predictors
                for _ in range(3):
                    nev += 1
                    lam = pd.Series([rnd.choice([0, 0, 0.5, 1.0, 2.5]) for _ in m.index], index=m.index)
                    w = np.asarray(m.signed_weights(lam), dtype=float)
                    wexp = [sum(Fraction(lam[key]) * sw[order[pos]][j] for j, key in enumerate(keys)) for pos in range(n)]
                    if any(not close(w[pos], wexp[pos]) for pos in range(n)):
                        out.append(({"api": "signed_weights", "kind": "linearity", **sig0}, f"signed_weights({dict(lam)}) = {w.tolist()} vs {[float(x) for x in wexp]}", detail))
                    # the multiplier vector is indexed by the constraint labels: listing its entries in another order changes nothing
                    if len(lam) > 1:
                        w_rev = np.asarray(m.signed_weights(lam.iloc[::-1]), dtype=float)
                        if not np.allclose(w_rev, w, atol=1e-12):
                            out.append(({"api": "signed_weights", "kind": "label_alignment", **sig0}, "signed_weights depends on the ORDER in which the multiplier Series lists the constraints", detail))
                    h1 = np.array([rnd.randint(0, 8) / 8 for _ in range(n)])
                    h2 = np.array([rnd.randint(0, 8) / 8 for _ in range(n)])
                    g1 = m.gamma(M.vec_predictor(h1)); g2 = m.gamma(M.vec_predictor(h2))
                    lhs = float((lam * g1).sum() - (lam * g2).sum())
                    rhs = -float(np.dot(w, h1 - h2)) / n
                    if abs(lhs - rhs) > 1e-9:
                        out.append(({"api": "identity", "kind": "value", **sig0}, f"lambda.gamma(h)-lambda.gamma(h') = {lhs} but -(1/n) sum w_i (h_i-h'_i) = {rhs}", detail))
                    # project_lambda: non-negative, Lagrangian never lower (an empty constraint index has nothing to project)
                    if len(keys) == 0:
                        continue
                    pl = m.project_lambda(lam)
                    if (pl < 0).any():
                        out.append(({"api": "project_lambda", "kind": "negative", **sig0}, f"project_lambda gave {dict(pl)}", detail))
                    err = red.ErrorRate(); err.load_data(d["X"], np.array(d["y"]), sensitive_features=d["g"])
                    for hv in (h1, (h2 > 0.5) * 1.0):
                        pred = M.vec_predictor(hv)
                        gam = m.gamma(pred); e = err.gamma(pred).iloc[0]
                        L0 = e + float((lam * (gam - m.bound())).sum()); L1 = e + float((pl * (gam - m.bound())).sum())
                        if L1 < L0 - 1e-9:
                            out.append(({"api": "project_lambda", "kind": "lower_lagrangian", **sig0}, f"L(h, project(lambda)) = {L1} < L(h, lambda) = {L0}", detail))
                # relabel / reweight as performed by _Lagrangian._call_oracle, observed through a recording learner
                Recorder.log = []
                lag = _Lagrangian(X=d["X"], y=np.array(d["y"]), estimator=Recorder(), constraints=M.make_moment(kind, ratio), B=10.0,
                                  sensitive_features=d["g"], **({"control_features": d["c"]} if hc else {}))
                lam = pd.Series([rnd.choice([0, 0.5, 1.0, 2.0]) for _ in lag.constraints.index], index=lag.constraints.index)
                ow = [1 if yy == 1 else -1 for yy in d["y"]]
                wtot = [ow[pos] + sum(Fraction(lam[key]) * sw[order[pos]][j] for j, key in enumerate(keys)) for pos in range(n)]
                if all(x == 0 for x in wtot):
                    continue        # every hypothesis is a best response; the normalisation n*|w|/sum|w| is undefined (precondition: some weight non-zero)
                lag._call_oracle(lam)
                nev += 1
                if Recorder.log:
                    ry, rw = Recorder.log[-1]
                    tot = sum(abs(x) for x in wtot)
                    exp_y = [1 if x > 0 else 0 for x in wtot]
                    exp_w = [float(n * abs(x) / tot) if tot else 0.0 for x in wtot]
                    nz = [pos for pos in range(n) if wtot[pos] != 0]
                    if any(ry[pos] != exp_y[pos] for pos in nz) or any(abs(rw[pos] - exp_w[pos]) > 1e-9 for pos in range(n)):
                        out.append(({"api": "_call_oracle", "kind": "relabel_reweight", **sig0}, f"learner saw labels {ry} weights {rw}; specification labels {exp_y} weights {exp_w}", detail))
                else:
                    # all reduced labels equal -> the code short-cuts to a constant classifier; must agree with the spec's labels
                    if len({1 if x > 0 else 0 for x in wtot if x != 0}) > 1:
                        out.append(({"api": "_call_oracle", "kind": "no_learner_call", **sig0}, "learner not called although reduced labels differ", detail))
            except Exception as e:
                out.append(({"api": "moment", "kind": "exception", "exc": type(e).__name__, **sig0}, f"raised {e!r}", detail))
    if not hc:
        # loss moments: lambda.gamma(h) = (1/n) sum_i w_i loss_i(h)
        try:
            for cls, args in ((red.SquareLoss, (0, 1)), (red.AbsoluteLoss, (-1, 2)), (red.ZeroOneLoss, ())):
                loss = cls(*args)
                bgl = red.BoundedGroupLoss(loss, upper_bound=0.2)
                yv = np.array(d["y"], dtype=float)
                bgl.load_data(d["X"], yv, sensitive_features=d["g"])
                lam = pd.Series([rnd.choice([0, 0.5, 1.0, 2.0]) for _ in bgl.index], index=bgl.index)
                hv = np.array([rnd.choice([-1, 0, 0.5, 1, 2]) for _ in range(n)], dtype=float)
                gam = bgl.gamma(M.vec_predictor(hv))
                w = np.asarray(bgl.signed_weights(lam), dtype=float)
                li = np.asarray(loss.eval(yv, hv), dtype=float)
                nev += 1
                lhs = float((lam * gam).sum()); rhs = float(np.dot(w, li)) / n
                # independent expectation of the weights: lambda_g / P(g)
                cnt = {a: d["g"].count(a) for a in set(d["g"])}
                wexp = [lam[a] * n / cnt[a] for a in d["g"]]
                if abs(lhs - rhs) > 1e-9 or any(abs(a - b) > 1e-9 for a, b in zip(w, wexp)):
                    out.append(({"api": "BoundedGroupLoss.signed_weights", "kind": "identity"}, f"lambda.gamma = {lhs}, (1/n) sum w loss = {rhs}, w = {w.tolist()} expected {wexp}", detail0))
                if len(lam) > 1:
                    w_rev = np.asarray(bgl.signed_weights(lam.iloc[::-1]), dtype=float)
                    if not np.allclose(w_rev, w, atol=1e-12):
                        out.append(({"api": "BoundedGroupLoss.signed_weights", "kind": "label_alignment"}, "signed_weights depends on the ORDER in which the multiplier Series lists the groups", detail0))
            for eo in case["err"]:
                fp, fn_ = eo["costs"]
                er = red.ErrorRate(costs={"fp": fp, "fn": fn_}); er.load_data(d["X"], np.array(d["y"]), sensitive_features=d["g"])
                w = np.asarray(er.signed_weights(), dtype=float)
                exp = [eo["w"][order[pos]] for pos in range(n)]
                nev += 1
                if any(abs(a - b) > 1e-12 for a, b in zip(w, exp)):
                    out.append(({"api": "ErrorRate.signed_weights", "kind": "value"}, f"costs {fp, fn_}: {w.tolist()} vs {exp}", detail0))
                # an explicit multiplier scales the weights linearly, and the identity holds for the objective moment too
                for mult in (0.0, 1.0, 2.5):
                    lam = pd.Series({"all": mult})
                    wl = np.asarray(er.signed_weights(lam), dtype=float)
                    if any(abs(a - mult * b) > 1e-12 for a, b in zip(wl, exp)):
                        out.append(({"api": "ErrorRate.signed_weights", "kind": "linearity", "multiplier": mult}, f"costs {fp, fn_}: signed_weights(lambda={mult}) = {wl.tolist()} != {mult} * {exp}", detail0))
                    h1 = np.array([rnd.randint(0, 8) / 8 for _ in range(n)]); h2 = np.array([rnd.randint(0, 8) / 8 for _ in range(n)])
                    lhs = mult * (er.gamma(M.vec_predictor(h1)).iloc[0] - er.gamma(M.vec_predictor(h2)).iloc[0])
                    rhs = -float(np.dot(wl, h1 - h2)) / n
                    if abs(lhs - rhs) > 1e-9:
                        out.append(({"api": "ErrorRate", "kind": "identity", "multiplier": mult}, f"lambda.gamma(h)-lambda.gamma(h') = {lhs} but -(1/n) sum w (h-h') = {rhs}", detail0))
        except Exception as e:
            out.append(({"api": "loss_moment", "kind": "exception"}, f"raised {e!r}", detail0))
    lacking = any(len(mo["index"]) < 2 * case["G"] * S * (2 if mo["kind"] == "EO" else 1) for mo in case["moments"])
    return out, nev, lacking


def run(ck):
    # the design-level laws that need the hypothesis class / multiplier grid (smaller bounds: they quantify over lambda x H)
    ck.tlc("Moments", M.cfg(3, 2, 1, 2, False, laws=("LawsProject", "LawsReduction")), "ProjectOK + ReductionExact N<=3 G=2 S=1 F=2", timeout=3000)
    if not ck.quick:
        ck.tlc("Moments", M.cfg(4, 2, 1, 2, False, laws=("LawsProject", "LawsReduction")), "ProjectOK + ReductionExact N<=4 G=2 S=1 F=2", timeout=3000)
        ck.tlc("Moments", M.cfg(3, 2, 2, 1, False, laws=("LawsProject",)), "ProjectOK N<=3 G=2 S=2", timeout=3000)
    c06.main(ck, _one, "LawsC07")
    ck.rule = ("states as in C06; per state: signed_weights for every unit multiplier vs exact rationals, 3 random lambda>=0 x soft predictor pairs for the identity "
               "on the code's own gamma, project_lambda, loss-moment identity, ErrorRate weights, _Lagrangian._call_oracle relabel/reweight via a recording learner")
    ck.assumptions += ["linearity extends the unit-multiplier / unit-predictor basis to every lambda >= 0 and soft h (TLC proves the basis identities exactly)"]


def replay(ck, path):
    run(ck)
