"""C16 - adversarial training applies the documented projected-gradient update.

Spec: spec/AdvUpdate.tla - g = gP - (<gA,gP>/<gA,gA>) gA - alpha gA with the Frobenius inner
product; TLC checks orthogonality of g + alpha gA to gA and gA = 0 => g = gP for every small
integer tensor pair, and marks the states on which a row-pair reading of the inner product would
differ (discriminating).
Binding A: TLC-chosen gradients are FORCED into the real PytorchEngine.train_step - a
PytorchEngine subclass (public `backend=` extension point) overriding only get_loss supplies
linear losses and the predictor's output is vec(W), so dLP/dW = GP and dLA/dW = GA exactly; with
plain SGD the parameter change must equal the specification's rational update.
Extension: real networks (list architectures, 0-2 hidden layers, binary / multiclass / continuous
targets and sensitive features, demographic parity and equalized odds): the harness recomputes the
three gradients by autograd on a deep copy and checks every predictor and adversary tensor.
"""
import copy
import json
import random

import numpy as np

from harness.core import R, pmap, MachineryError

TOL = 2e-5
LR = 0.5


def cfg(mr, mc, emit, nshards=1, shard=0):
    return (f"CONSTANTS MaxRows = {mr} MaxCols = {mc} Emit = {'TRUE' if emit else 'FALSE'} NShards = {nshards} Shard = {shard}\nSPECIFICATION Spec\n"
            "INVARIANT Orthogonal\nINVARIANT ZeroAdversaryGradient\nINVARIANT VectorsAgree\nINVARIANT EmitInv\nCHECK_DEADLOCK FALSE\n")


def _forced(batch):
    """several TLC states per call (estimator construction dominates)"""
    import torch
    from fairlearn.adversarial import AdversarialFairnessRegressor
    from fairlearn.adversarial._pytorch_engine import PytorchEngine
    X = np.zeros((3, 2)); y = np.array([0.1, 0.5, 0.9]); sf = np.array([0.3, 0.2, 0.7])
    res = []
    for case in batch:
        out = []
        nr, nc = case["nr"], case["nc"]
        shape = (nr, nc)
        GP = np.array(case["gP"], dtype=float).reshape(shape)
        GA = np.array(case["gA"], dtype=float).reshape(shape)
        alpha = float(R(case["alpha"]))

        class Pred(torch.nn.Module):
            def __init__(s):
                super().__init__(); s.W = torch.nn.Parameter(torch.zeros(shape))

            def forward(s, Xb):
                return s.W.reshape(1, -1).expand(Xb.shape[0], -1)

        class Adv(torch.nn.Module):
            def __init__(s):
                super().__init__(); s.U = torch.nn.Parameter(torch.zeros(shape))

            def forward(s, Z):
                return Z + s.U.reshape(1, -1)
        gp = torch.tensor(GP.reshape(-1), dtype=torch.float32)
        ga = torch.tensor(GA.reshape(-1), dtype=torch.float32)

        class Eng(PytorchEngine):
            def get_loss(self, dist_type):      # called for the predictor first, then for the adversary
                self._k = getattr(self, "_k", 0) + 1
                if self._k == 1:
                    return lambda Yh, Y: (Yh[0] * gp).sum()
                return lambda Ah, A: (Ah[0] * ga).sum()
        detail = {"gP": GP.tolist(), "gA": GA.tolist(), "alpha": alpha}
        sig0 = {"shape": f"{nr}x{nc}", "gA_zero": not GA.any(), "several_rows": nr > 1}
        try:
            est = AdversarialFairnessRegressor(backend=Eng, predictor_model=Pred(), adversary_model=Adv(), predictor_optimizer="SGD", adversary_optimizer="SGD",
                                               learning_rate=LR, alpha=alpha, batch_size=-1, random_state=0)
            est.partial_fit(X, y, sensitive_features=sf)
            W = est.backendEngine_.predictor_model.W.detach().numpy().reshape(-1)
            U = est.backendEngine_.adversary_model.U.detach().numpy().reshape(-1)
        except Exception as e:
            res.append(([({"api": "train_step", "kind": "exception", **sig0}, f"raised {e!r}", detail)], bool(case["disc"])))
            continue
        exp = [-LR * float(R(v)) for v in case["g"]]
        if np.isnan(W).any():
            out.append(({"api": "train_step", "kind": "nan", **sig0}, f"predictor tensor became NaN (gA = {GA.tolist()})", detail))
        elif np.abs(W - np.array(exp)).max() > TOL:
            out.append(({"api": "train_step", "kind": "predictor_update", **sig0}, f"predictor change {W.tolist()} != -lr * g = {exp}", detail))
        if np.abs(U - (-LR * GA.reshape(-1))).max() > 1e-6:
            out.append(({"api": "train_step", "kind": "adversary_update", **sig0}, f"adversary change {U.tolist()} != -lr * dLA/dU {(-LR * GA.reshape(-1)).tolist()}", detail))
        res.append((out, bool(case["disc"])))
    return res


def _real(seed):
    """one real network, one step: expected update recomputed by autograd on a deep copy"""
    import torch
    from fairlearn.adversarial import AdversarialFairnessClassifier, AdversarialFairnessRegressor
    rs = np.random.RandomState(seed)
    out = []
    n = int(rs.randint(2, 9))
    d = int(rs.randint(1, 5))
    task = ["binary", "multiclass", "continuous"][seed % 3]
    sftask = ["binary", "multiclass", "continuous"][(seed // 3) % 3]
    cons = ["demographic_parity", "equalized_odds"][(seed // 9) % 2]
    def arch():
        k = rs.randint(0, 3)
        layers = []
        for _ in range(k):
            layers.append(int(rs.randint(1, 7)))
            layers.append(["relu", "leaky_relu", "sigmoid"][rs.randint(0, 3)])
        return layers
    pa, aa = arch(), arch()
    alpha = float(rs.choice([0.0, 0.5, 1.0, 3.0]))
    lr = float(rs.choice([0.25, 0.01, 1.0]))
    X = rs.randn(n, d)
    def target(kind):
        if kind == "binary":
            v = rs.randint(0, 2, n); v[:2] = [0, 1]; return v
        if kind == "multiclass":
            v = rs.randint(0, 3, n); v[:3] = [0, 1, 2] if n >= 3 else v[:3]; return np.array(["a", "b", "c"])[v] if n >= 3 else None
        return rs.randn(n)
    y = target(task); sf = target(sftask)
    if y is None or sf is None:
        return out, None
    detail = {"seed": int(seed), "task": task, "sf": sftask, "constraints": cons, "predictor": pa, "adversary": aa, "alpha": alpha, "lr": lr, "n": n, "d": d}
    sig0 = {"task": task, "constraints": cons}
    try:
        cls = AdversarialFairnessRegressor if task == "continuous" else AdversarialFairnessClassifier
        est = cls(backend="torch", predictor_model=pa, adversary_model=aa, predictor_optimizer="SGD", adversary_optimizer="SGD", learning_rate=lr, alpha=alpha,
                  constraints=cons, batch_size=-1, random_state=int(seed))
        Xt, Yt, At = est._validate_input(X, y, sf, True)              # set-up only (freshly initialised models), no training step
        eng = est.backendEngine_
        multi = zero = False
        for step_no, alpha_now in enumerate((alpha, float(rs.choice([0.0, 0.25, 2.0, 5.0])))):
            # the estimator's alpha may be rescheduled between steps (partial_fit loops, callbacks): each step uses the current value
            est.alpha = alpha_now
            detail["alpha_step"] = [step_no, alpha_now]
            P = copy.deepcopy(eng.predictor_model); A = copy.deepcopy(eng.adversary_model)
            P.train(); A.train()
            Yh = P(Xt)
            LP = eng.predictor_loss(Yh, Yt)
            pp = list(P.parameters()); ap = list(A.parameters())
            gP = torch.autograd.grad(LP, pp, retain_graph=True, allow_unused=True)
            Z = torch.cat((Yh, Yt), dim=1) if est.pass_y_ else Yh
            LA = eng.adversary_loss(A(Z), At)
            gAp = torch.autograd.grad(LA, pp, retain_graph=True, allow_unused=True)
            gAu = torch.autograd.grad(LA, ap, allow_unused=True)
            if not all(torch.isfinite(t).all() for t in list(gP) + list(gAp) + list(gAu) if t is not None):
                return out, None                                           # non-finite loss gradient: nothing to compare
            before_p = [p.detach().clone() for p in eng.predictor_model.parameters()]
            before_a = [p.detach().clone() for p in eng.adversary_model.parameters()]
            est.partial_fit(X, y, sensitive_features=sf)                  # the observed step
            for i, p in enumerate(eng.predictor_model.parameters()):
                gp = gP[i] if gP[i] is not None else torch.zeros_like(before_p[i])
                ga = gAp[i] if gAp[i] is not None else torch.zeros_like(before_p[i])
                nn_ = float((ga.double() * ga.double()).sum())
                if p.dim() == 2 and p.shape[0] > 1 and p.shape[1] > 1:
                    multi = True
                if nn_ == 0.0:
                    zero = True
                    g = gp
                else:
                    g = gp - ((ga.double() * gp.double()).sum() / nn_).float() * ga - alpha_now * ga
                exp = before_p[i] - lr * g
                got = p.detach()
                scale = max(1.0, float(exp.abs().max()))
                if torch.isnan(got).any():
                    out.append(({"api": "train_step", "kind": "nan", "gA_zero": nn_ == 0.0, **sig0}, f"predictor tensor {i} (shape {tuple(p.shape)}) became NaN; |dLA/dW|^2 = {nn_}", detail))
                elif float((got - exp).abs().max()) > TOL * scale:
                    out.append(({"api": "train_step", "kind": "predictor_update", "several_rows": bool(p.dim() == 2 and p.shape[0] > 1), "step": step_no, **sig0},
                                f"step {step_no} (alpha={alpha_now}): predictor tensor {i} (shape {tuple(p.shape)}) differs from the documented update by {float((got - exp).abs().max())}", detail))
            for i, p in enumerate(eng.adversary_model.parameters()):
                gu = gAu[i] if gAu[i] is not None else torch.zeros_like(before_a[i])
                exp = before_a[i] - lr * gu
                if float((p.detach() - exp).abs().max()) > TOL * max(1.0, float(exp.abs().max())):
                    out.append(({"api": "train_step", "kind": "adversary_update", **sig0}, f"adversary tensor {i} does not follow the plain gradient of LA", detail))
            if out:
                break
        return out, (multi, zero, cons)
    except Exception as e:
        out.append(({"api": "adversarial", "kind": "exception", "exc": type(e).__name__, **sig0}, f"raised {e!r}", detail))
        return out, None


def run(ck):
    ck.rule = ("AdvUpdate.tla: every pair of integer tensors (entries -1..1) of every shape up to MaxRows x MaxCols and alpha in {0, 1/2, 1, 2} is one TLC state; each is forced into the "
               "real PytorchEngine.train_step through linear losses; plus seeded real networks with autograd-recomputed expected updates")
    ck.tlc("AdvUpdate", cfg(2, 2, False), "laws shapes <= 2x2", timeout=1500)
    if not ck.quick:
        ck.tlc("AdvUpdate", cfg(2, 3, False), "laws shapes <= 2x3", timeout=3000)
    cases = ck.tlc_shards("AdvUpdate", lambda k: cfg(2, 2, True, 8, k), 8, "emit shapes <= 2x2", same_space=True, timeout=3000)
    if ck.quick:
        rnd = ck.rng("c16")
        rnd.shuffle(cases)
        cases = cases[:6000]
    else:
        extra = ck.tlc_shards("AdvUpdate", lambda k: cfg(2, 3, True, 64, k), 8, "emit shapes <= 2x3 (8 of 64 shards)", same_space=True, timeout=3000)
        cases += extra
    ck.exhaustive = not ck.quick
    batches = [cases[i:i + 40] for i in range(0, len(cases), 40)]
    disc = zero = 0
    flat = [r for rs in pmap(_forced, batches, chunksize=1) for r in rs]
    for c, (viol, d) in zip(cases, flat):
        ck.impl += 1
        disc += d
        zero += not any(c["gA"])
        ck.nt(json.dumps([c["nr"], c["nc"], c["gP"], c["gA"], c["alpha"]]))
        for sig, text, detail in viol:
            ck.violation(sig, text, detail)
    nreal = 72 if ck.quick else 900
    multi = zeros = eo = 0
    for viol, info in pmap(_real, [ck.seed * 7919 + i for i in range(nreal)], chunksize=2):
        ck.impl += 1
        if info:
            multi += info[0]; zeros += info[1]; eo += info[2] == "equalized_odds"
        for sig, text, detail in viol:
            ck.violation(sig, text, detail)
    ck.evaluations = ck.impl
    ck.sample(cases[0])
    ck.extra.update({"forced_cases": len(cases), "forced_cases_where_row_pair_reading_differs": disc, "forced_cases_with_zero_adversary_gradient": zero,
                     "real_networks": nreal, "real_networks_with_multi_row_weight": multi, "real_networks_with_a_zero_adversary_gradient_tensor": zeros, "real_networks_equalized_odds": eo})
    if disc == 0 or zero == 0 or multi == 0:
        raise MachineryError("vacuity: no discriminating / zero-gradient / multi-row case")
    from harness import extras2
    # Apalache: the orthogonality law holds for tensors of up to four entries with ARBITRARY integer values (AdvUpdateInd.tla)
    extras2.apalache(ck, "AdvUpdateInd", "Init", "Orthogonal", 0, "unbounded entries: nn * (g + alpha * gA) is orthogonal to gA")
    extras2.backend(ck)      # specification growth (refinement tier only): backend selection rules
    ck.assumptions += ["the TensorFlow engine cannot be executed here (tensorflow is not installed): only the PyTorch engine is covered",
                       "float32 parameters compared at 2e-5 (relative to max(1, |expected|))", "gA = 0 => g = gP is the reading of 'projection on a zero gradient'"]


def replay(ck, path):
    run(ck)
