"""C18 - bootstrap intervals are reproducible, ordered and shaped like the estimates.

Specs: Bootstrap.tla (numpy-"linear" quantile on a dyadic grid; TLC checks monotonicity in the
level, constant metric => all quantiles equal, range, enclosure of the resampling mean for a wide
pair on every sorted sequence of resample statistics up to the bound) and BootTrace.tla.
Binding B: drivers build MetricFrames over layouts (callable / dict metrics, 0-2 control, 1-2
sensitive features) with a RECORDING metric that logs the multiset of row ids of every call; TLC
validates each recorded call stream: passes of exactly n rows, n_boot resamples, by-group calls
partition each resample, rows drawn from the data with replacement and fresh seeds, and the
reported by_group quantiles of `count` equal the specification's quantiles of the resample's
group sizes.  The harness checks type / columns / index of every *_ci entry against the point
estimate, element-wise ordering, reproducibility, and (outside TLC) width / enclosure.
"""
import json
import math
import random

import numpy as np

from harness.core import pmap, MachineryError

LOG = []


def rec_count(y_true, y_pred):
    LOG.append([int(v) for v in y_pred])          # the row ids travel in y_pred: y_true may hold missing labels
    return float(len(y_pred))


def const_metric(y_true, y_pred):
    return 0.5


def mean_id(y_true, y_pred):
    return float(np.mean(y_true))


def _same_shape(a, b, what, out, sig, detail):
    import pandas as pd
    if type(a) is not type(b) and not (np.isscalar(a) and np.isscalar(b)):
        out.append(({"kind": "type", **sig}, f"{what}: {type(a).__name__} vs point estimate {type(b).__name__}", detail))
        return False
    if isinstance(a, pd.DataFrame):
        if list(a.columns) != list(b.columns):
            out.append(({"kind": "columns", **sig}, f"{what}: columns {list(a.columns)} vs {list(b.columns)}", detail))
            return False
    if isinstance(a, (pd.Series, pd.DataFrame)):
        if not set(a.index) <= set(b.index) or a.index.names != b.index.names:
            out.append(({"kind": "index", **sig}, f"{what}: index {list(a.index)} vs {list(b.index)}", detail))
            return False
    return True


def _vals(x):
    import pandas as pd
    if isinstance(x, (pd.Series, pd.DataFrame)):
        return np.asarray(x.values, dtype=float).reshape(-1)
    return np.array([float(x)])


def _frame(job):
    seed, = job
    import pandas as pd
    import fairlearn.metrics as fm
    rnd = random.Random(seed)
    out = []
    n = rnd.randint(2, 14)
    nb = rnd.choice([1, 2, 3, 5, 8])
    ncf, nsf = rnd.choice([(0, 1), (0, 1), (1, 1), (0, 2), (1, 2), (2, 1)])
    levels = sorted(rnd.sample(range(1, 8), rnd.randint(1, 3)))
    if seed % 2:
        rnd.shuffle(levels)                       # entry i of every *_ci list belongs to the i-th REQUESTED quantile, whatever the order of the request
    form = rnd.choice(["callable", "dict"])
    feats = [[rnd.choice("ab") + str(rnd.randint(0, 1 if k else 2)) for _ in range(n)] for k in range(ncf + nsf)]
    names = ["cf0", "cf1"][:ncf] + ["sf0", "sf1"][:nsf]
    key = lambda i: "|".join(feats[k][i] for k in range(ncf + nsf))
    skey = lambda i: "|".join(feats[k][i] for k in range(ncf))
    ids = list(range(n))
    # partially unlabelled data (NaN in y_true) is legitimate input for a NaN-tolerant metric: the resamples still have n rows
    yt = [float("nan") if (seed % 3 == 0 and i % 4 == 1) else float(i) for i in ids]
    sfa = pd.DataFrame({nm: feats[ncf + k] for k, nm in enumerate(names[ncf:])})
    cfa = pd.DataFrame({nm: feats[k] for k, nm in enumerate(names[:ncf])}) if ncf else None
    qs = [l / 8 for l in levels]
    sig = {"form": form, "control": ncf}
    detail = {"seed": seed, "n": n, "n_boot": nb, "levels": levels, "features": feats}
    metrics = rec_count if form == "callable" else {"cnt": rec_count}
    rs = [0, 1, 2 ** 32 - 1, rnd.randint(0, 10 ** 6), rnd.randint(0, 10 ** 6)][seed % 5]      # edge seeds included (0 is a legitimate integer seed)
    try:
        del LOG[:]
        mf = fm.MetricFrame(metrics=metrics, y_true=yt, y_pred=ids, sensitive_features=sfa, control_features=cfa, n_boot=nb, ci_quantiles=qs, random_state=rs)
        calls = [list(c) for c in LOG]
        del LOG[:]
        mf2 = fm.MetricFrame(metrics=metrics, y_true=yt, y_pred=ids, sensitive_features=sfa, control_features=cfa, n_boot=nb, ci_quantiles=qs, random_state=rs)
    except Exception as e:
        return [({"kind": "exception", **sig}, f"MetricFrame(n_boot) raised {e!r}", detail)], None
    # ---- shapes, ordering, reproducibility for every *_ci
    pairs = {"overall": (mf.overall_ci, mf.overall, mf2.overall_ci), "by_group": (mf.by_group_ci, mf.by_group, mf2.by_group_ci),
             "group_min": (mf.group_min_ci(), mf.group_min(), mf2.group_min_ci()), "group_max": (mf.group_max_ci(), mf.group_max(), mf2.group_max_ci())}
    for m in ("between_groups", "to_overall"):
        pairs[f"difference[{m}]"] = (mf.difference_ci(method=m), mf.difference(method=m), mf2.difference_ci(method=m))
        pairs[f"ratio[{m}]"] = (mf.ratio_ci(method=m), mf.ratio(method=m), mf2.ratio_ci(method=m))
    for name, (ci, point, ci2) in pairs.items():
        s2 = {"api": name + "_ci", **sig}
        if not isinstance(ci, list) or len(ci) != len(qs):
            out.append(({"kind": "length", **s2}, f"{name}_ci has {len(ci) if isinstance(ci, list) else type(ci)} entries for {len(qs)} quantiles", detail))
            continue
        ok = all(_same_shape(c, point, f"{name}_ci[{k}]", out, s2, detail) for k, c in enumerate(ci))
        if not ok:
            continue
        by_level = [ci[j] for j in sorted(range(len(ci)), key=lambda j: levels[j])]
        for k in range(len(by_level) - 1):
            a, b = _vals(by_level[k]), _vals(by_level[k + 1])
            if a.shape != b.shape or np.any(a > b + 1e-12):
                out.append(({"kind": "ordering", **s2}, f"{name}_ci not non-decreasing in the quantile: {a.tolist()} then {b.tolist()}", detail))
        for c, c2 in zip(ci, ci2):
            if not np.array_equal(_vals(c), _vals(c2), equal_nan=True):
                out.append(({"kind": "reproducibility", **s2}, f"{name}_ci differs between two runs with random_state={rs}", detail))
    # overall row count is n at every quantile (per stratum: the stratum size varies, the total does not)
    if ncf == 0:
        for c in mf.overall_ci:
            if abs(float(_vals(c)[0]) - n) > 1e-9:
                out.append(({"kind": "overall_count", "api": "overall_ci", **sig}, f"overall count quantile {_vals(c)[0]} != n = {n}", detail))
    # ---- trace for TLC
    ci = []
    for k, c in enumerate(mf.by_group_ci):
        ser = c if form == "callable" else c["cnt"]
        ent = []
        for ix, v in ser.items():
            if v != v:
                continue
            kk = "|".join(ix) if isinstance(ix, tuple) else str(ix)
            v8 = 8 * float(v)
            if abs(v8 - round(v8)) > 1e-9:
                out.append(({"kind": "non_dyadic_quantile", "api": "by_group_ci", **sig}, f"count quantile {v} at level {levels[k]}/8 is not a multiple of 1/8", detail))
            ent.append({"key": kk, "v8": int(round(v8))})
        ci.append(ent)
    trace = {"n": n, "n_boot": nb, "group": [key(i) for i in ids], "stratum": [skey(i) for i in ids], "levels": levels, "calls": calls, "ci": ci,
             "events": calls}
    return out, trace


def _stat(job):
    """constant metric / varying metric clauses (outside TLC: statistical width, enclosure of the resampling mean)"""
    seed, = job
    import fairlearn.metrics as fm
    rnd = random.Random(seed)
    out = []
    n = rnd.randint(8, 30); nb = rnd.randint(20, 40)
    g = [rnd.choice("xyz") for _ in range(n)]
    vals = [float(v) for v in rnd.sample(range(1000), n)]           # distinct row values
    detail = {"seed": seed, "n": n, "n_boot": nb}
    qs = [0.01, 0.5, 0.99]
    mfc = fm.MetricFrame(metrics=const_metric, y_true=vals, y_pred=vals, sensitive_features=g, n_boot=nb, ci_quantiles=qs, random_state=seed)
    for name, ci, pt in (("overall", mfc.overall_ci, mfc.overall), ("by_group", mfc.by_group_ci, mfc.by_group), ("difference", mfc.difference_ci(), mfc.difference())):
        for c in ci:
            if not np.allclose(_vals(c)[~np.isnan(_vals(c))], 0.5 if name != "difference" else 0.0):
                out.append(({"kind": "constant_metric", "api": name + "_ci"}, f"constant metric but {name}_ci = {_vals(c).tolist()}", detail))
    seen = []
    def rec_mean(y_true, y_pred):
        seen.append((len(y_true), float(np.mean(y_true))))
        return float(np.mean(y_true))
    mfv = fm.MetricFrame(metrics=rec_mean, y_true=vals, y_pred=vals, sensitive_features=g, n_boot=nb, ci_quantiles=qs, random_state=seed)
    boots, acc, npass = [], 0, 0                                   # overall value of every resample: first call of every even pass after the point estimate
    for (k, m) in seen:
        if acc == 0 and npass >= 2 and npass % 2 == 0 and k == n:
            boots.append(m)
        acc += k
        if acc >= n:
            acc, npass = 0, npass + 1
    lo, mid, hi = (float(_vals(c)[0]) for c in mfv.overall_ci)
    if len(boots) != nb:
        out.append(({"kind": "resample_count", "api": "overall_ci"}, f"{len(boots)} full-size overall evaluations for n_boot={nb}", detail))
    elif not (hi - lo > 0 and lo - 1e-9 <= float(np.mean(boots)) <= hi + 1e-9):
        out.append(({"kind": "width_or_enclosure", "api": "overall_ci"}, f"[{lo}, {hi}] does not enclose the resampling mean {np.mean(boots)} with positive width", detail))
    return out


def run(ck):
    ck.rule = ("seeded MetricFrames (n 2..14, n_boot 1..8, 0-2 control and 1-2 sensitive features, callable / dict recording metric, dyadic quantile levels); every recorded call stream "
               "is one trace validated by TLC against BootTrace.tla; plus constant / varying metric frames (n 8..30, n_boot 20..40) for the statistical clauses")
    ck.tlc("Bootstrap", "CONSTANTS MaxB = %d MaxV = %d\nSPECIFICATION Spec\nINVARIANT Monotone\nINVARIANT ConstantMetric\nINVARIANT WithinRange\nINVARIANT Encloses\nCHECK_DEADLOCK FALSE\n"
           % ((5, 3) if ck.quick else (6, 4)), "quantile laws on all sorted statistic sequences", timeout=1500)
    nfr = 240 if ck.quick else 3000
    res = pmap(_frame, [(ck.seed * 1009 + i,) for i in range(nfr)], chunksize=4)
    traces = []
    for viol, tr in res:
        ck.impl += 1
        for sig, text, detail in viol:
            ck.violation(sig, text, detail)
        if tr:
            traces.append(tr)
            ck.nt(json.dumps([tr["n"], tr["n_boot"], tr["group"], tr["levels"]]))
    acc, diags = ck.validate_traces("BootTrace", traces, "CONSTANTS MaxB = 1 MaxV = 1\nSPECIFICATION TSpec\nCHECK_DEADLOCK FALSE\n", "bootstrap call streams", shards=12)
    for i, ok in enumerate(acc):
        if not ok:
            dg = diags.get(i, {})
            t = traces[i]
            ck.violation({"api": "bootstrap", "kind": "trace_rejected", "at_end": dg.get("matched_events") == dg.get("of")},
                         f"recorded bootstrap call stream rejected by BootTrace.tla after {dg.get('matched_events')} of {dg.get('of')} calls (n={t['n']}, n_boot={t['n_boot']}); next call {dg.get('next_event')}",
                         {"trace": {k: v for k, v in t.items() if k != "events"}, "diag": dg})
    nst = 60 if ck.quick else 600
    for viol in pmap(_stat, [(ck.seed * 31 + i,) for i in range(nst)], chunksize=2):
        ck.impl += 1
        for sig, text, detail in viol:
            ck.violation(sig, text, detail)
    ck.evaluations = ck.impl
    if traces:
        t = traces[0]
        ck.sample({"n": t["n"], "n_boot": t["n_boot"], "levels": t["levels"], "calls_head": t["calls"][:5], "ci": t["ci"]})
    ck.extra.update({"frames": nfr, "traces_validated_by_tlc": len(traces), "traces_accepted": sum(acc), "statistical_frames": nst,
                     "frames_with_control_features": sum(1 for t in traces if any(s for s in t["stratum"]))})
    if not traces or sum(acc) == 0:
        raise MachineryError("no bootstrap trace was validated")
    from harness import extras2
    extras2.bootargs(ck)     # specification growth (refinement tier only): bootstrap argument rules and *_ci availability
    ck.assumptions += ["quantile levels k/8 and the integer-valued metric `count` make every reported quantile an exact multiple of 1/8",
                       "positive width / enclosure of the resampling mean: fixed seeds, n >= 8, n_boot >= 20, levels 0.01 / 0.99 (statistical clause, outside TLC)"]


def replay(ck, path):
    run(ck)
