"""C11 - sample weights mean multiplicity: weight k == k copies of the row.

Spec: Metrics.tla (LawExpand, LawExpandUnit, LawScale, LawAllOnes on plain vectors) and
Frame.tla (LawUnitWeights; cells defined through weighted counts).  TLC proves the laws on the
definitions for every small dataset; the replay executes the three metamorphic pairs ON THE
CODE for every TLC state (weighted vs expanded vs expanded-without-weights; weights scaled by
0.5 / pi / 3; all-ones vs omitted) for the base metrics, MetricFrame with sample_params (per
group, incl. single weighted-row groups) and the named fairness metrics, and also compares
with the specification's exact value.
"""
import json
import math
import random

from harness.core import R, close, pmap, MachineryError
from harness.frame_common import METRICS, GLABEL, CLABEL, frame_cfg, metric_fns, order_for, concrete, lookup, isnan
from harness.checks import c14

SCALES = [0.5, math.pi, 3]
BASE = {"tpr": "true_positive_rate", "fnr": "false_negative_rate", "fpr": "false_positive_rate",
        "tnr": "true_negative_rate", "sel": "selection_rate", "mean": "mean_prediction"}


def _eq(a, b):
    if isnan(a) and isnan(b):
        return True
    try:
        return abs(float(a) - float(b)) <= 1e-12 * max(1.0, abs(float(b)))
    except Exception:
        return False


def _vec(args):
    """plain-vector part (Metrics.tla states)"""
    case, seed = args
    import fairlearn.metrics as fm
    import numpy as np
    out = []
    nev = 0
    rows = case["rows"]
    y = [r[0] for r in rows]; p = [r[1] for r in rows]; w = [r[2] for r in rows]
    ex = case["expanded"]
    ye = [r[0] for r in ex]; pe = [r[1] for r in ex]
    for key, fname in BASE.items():
        fn = getattr(fm, fname)
        detail = {"y": y, "p": p, "w": w}
        try:
            a = fn(y, p, sample_weight=w)
            b = fn(ye, pe, sample_weight=[1] * len(ye))
            c = fn(ye, pe)
            nev += 3
            for v in (a, b, c):
                if np.ndim(v) != 0:
                    out.append(({"fn": fname, "kind": "not_scalar", "n1": len(rows) == 1}, f"{fname} returned non-scalar {v!r}", detail))
            if np.ndim(a) or np.ndim(b) or np.ndim(c):
                continue
            if not (_eq(a, b) and _eq(b, c)):
                out.append(({"fn": fname, "kind": "expand"}, f"{fname}: weighted {a!r}, expanded unit-weight {b!r}, expanded unweighted {c!r}", detail))
            if not close(a, R(case["w"][key])):
                out.append(({"fn": fname, "kind": "value"}, f"{fname} weighted = {a!r}, specification {case['w'][key]}", detail))
            for s in SCALES:
                nev += 1
                v = fn(y, p, sample_weight=[s * x for x in w])
                if not _eq(v, a):
                    out.append(({"fn": fname, "kind": "scale"}, f"{fname}: weights x{s} give {v!r}, unscaled {a!r}", detail))
            if key in ("sel", "mean"):
                # omitting the weights == all-ones weights, whatever dtype the predictions are stored with
                for dt in (bool, np.uint8):
                    pb = np.array(p).astype(dt)
                    v0 = fn(y, pb); v1 = fn(y, pb, sample_weight=[1] * len(p)); v2 = fn(y, p)
                    nev += 1
                    if not (_eq(v0, v1) and _eq(v0, v2)):
                        out.append(({"fn": fname, "kind": "ones", "dtype": np.dtype(dt).name}, f"{fname} on {np.dtype(dt).name} predictions: no weights {v0!r}, all-ones {v1!r}, int predictions {v2!r}", detail))
            if all(x == 1 for x in w):
                nev += 1
                v = fn(y, p)
                if not _eq(v, a):
                    out.append(({"fn": fname, "kind": "ones"}, f"{fname}: all-ones weights {a!r} vs no weights {v!r}", detail))
        except Exception as e:
            out.append(({"fn": fname, "kind": "exception"}, f"{fname} raised {e!r}", detail))
    return out, nev, len(rows) == 1 and w[0] > 1


def _frame(args):
    """MetricFrame / fairness-metric part (Frame.tla states)"""
    case, seed = args
    import fairlearn.metrics as fm
    fns = metric_fns()
    out = []
    nev = 0
    rows = case["rows"]
    S = len(case["strata"])
    control = S > 1
    strata = [c + 1 for c, b in enumerate(case["strata"]) if b]
    groups = [g + 1 for g, b in enumerate(case["groups"]) if b]
    d = concrete(rows, order_for(rows, seed, 1))
    erows = [[r[0], r[1], r[2], r[3], 1] for r in rows for _ in range(r[4])]
    de = concrete(erows, order_for(erows, seed, 1))
    names = ["sel", "tpr", "fpr", "acc"]
    metrics = {m: fns[m] for m in names}

    def build(dd, wts):
        kw = dict(metrics=metrics, y_true=dd["y"], y_pred=dd["p"], sensitive_features=dd["g"],
                  sample_params=None if wts is None else {m: {"sample_weight": wts} for m in names})
        if control:
            kw["control_features"] = dd["c"]
        return fm.MetricFrame(**kw)

    detail = {"data": d}
    single_weighted_group = any(sum(1 for r in rows if r[0] == g and r[1] == c) == 1 and
                                any(r[4] > 1 for r in rows if r[0] == g and r[1] == c) for g in groups for c in strata)
    try:
        variants = {"weighted": build(d, d["w"]), "expanded_unit": build(de, [1] * len(erows)), "expanded_none": build(de, None)}
        s = SCALES[hash(json.dumps(rows)) % len(SCALES)]
        variants[f"scaled_{s:.3g}"] = build(d, [s * x for x in d["w"]])
        import pandas as pd
        lab = list(range(len(d["w"]))); random.Random(len(rows)).shuffle(lab)
        variants["series_labelled"] = build(d, pd.Series(d["w"], index=lab))
        shared = {m: {"sample_weight": d["w"]} for m in names}                # ONE sample_params object used for two frames (e.g. two models)
        kw2 = dict(metrics=metrics, y_true=d["y"], y_pred=d["p"], sensitive_features=d["g"], sample_params=shared)
        if control:
            kw2["control_features"] = d["c"]
        fm.MetricFrame(**kw2)
        variants["second_frame_same_params_object"] = fm.MetricFrame(**kw2)          # a weight vector is a weight vector whatever labels it carries
        if all(r[4] == 1 for r in rows):
            variants["omitted"] = build(d, None)
        nev += len(variants)
        ref = variants["weighted"]
        for m in names:
            exp = case["w"][METRICS.index(m)]
            for c in strata:
                cv = CLABEL[c] if control else None
                for g in groups:
                    e = exp["cells"][c - 1][g - 1]
                    a = lookup(ref.by_group, m, cv, GLABEL[g])
                    if hasattr(a, "ndim") and a.ndim != 0:
                        out.append(({"api": "by_group", "kind": "not_scalar"}, f"by_group[{m},{cv},{GLABEL[g]}] is non-scalar {a!r}", detail))
                        continue
                    if not close(a, R(e)):
                        out.append(({"api": "by_group", "kind": "value"}, f"weighted by_group[{m},{cv},{GLABEL[g]}] = {a!r}, specification {e}", detail))
                    for vn, mf in variants.items():
                        b = lookup(mf.by_group, m, cv, GLABEL[g])
                        if not _eq(a, b):
                            out.append(({"api": "by_group", "kind": vn.split('_')[0]}, f"by_group[{m},{cv},{GLABEL[g]}]: weighted {a!r} vs {vn} {b!r}", detail))
                for api in ("overall", "difference", "ratio", "group_min"):
                    def get(mf):
                        r = getattr(mf, api)
                        return lookup(r if api == "overall" else r(), m, cv, None)
                    a = get(ref)
                    for vn, mf in variants.items():
                        b = get(mf)
                        if not _eq(a, b):
                            out.append(({"api": api, "kind": vn.split('_')[0]}, f"{api}[{m},{cv}]: weighted {a!r} vs {vn} {b!r}", detail))
        if not control:
            named = case["named_w"]
            for fname, key in (("demographic_parity_difference", "dp_diff"), ("demographic_parity_ratio", "dp_ratio"),
                               ("equal_opportunity_difference", "eopp_diff"), ("equalized_odds_difference", "eodds_diff")):
                fn = getattr(fm, fname)
                nev += 3
                a = fn(d["y"], d["p"], sensitive_features=d["g"], sample_weight=d["w"])
                b = fn(de["y"], de["p"], sensitive_features=de["g"])
                c2 = fn(d["y"], d["p"], sensitive_features=d["g"], sample_weight=[math.pi * x for x in d["w"]])
                e = named[key][0] if key != "eodds_diff" else named[key][0][0]
                if not (_eq(a, b) and _eq(a, c2)):
                    out.append(({"fn": fname, "kind": "expand"}, f"{fname}: weighted {a!r}, expanded {b!r}, scaled {c2!r}", detail))
                if not close(a, R(e)):
                    out.append(({"fn": fname, "kind": "value"}, f"{fname} weighted = {a!r}, specification {e}", detail))
    except Exception as e:
        out.append(({"api": "MetricFrame", "kind": "exception", "exc": type(e).__name__}, f"raised {e!r}", detail))
    return out, nev, single_weighted_group


def run(ck):
    ck.rule = ("plain vectors: every multiset of (y, pred, weight<=3) rows up to N; frames: every multiset of (group, stratum, y, pred, weight) rows; "
               "each state executes weighted / expanded / expanded-unweighted / scaled / all-ones variants on the code and compares them with each other and the spec")
    Nv = 4 if ck.quick else 6
    ck.tlc("Metrics", c14.cfg(Nv + 1, 3, False), f"vector laws N<={Nv+1} W=3")
    vec = ck.tlc_shards("Metrics", lambda k: c14.cfg(Nv, 3, True, 8, k), 8, f"emit vectors N<={Nv} W=3")
    fcfgs = [(3, 2, 2, 1), (2, 3, 3, 1), (2, 2, 2, 2)] if ck.quick else [(4, 2, 2, 1), (3, 3, 3, 1), (3, 2, 2, 2), (3, 2, 3, 1)]
    frames = []
    for (N, G, W, S) in fcfgs:
        ck.tlc("Frame", frame_cfg(N, G, W, S, False), f"frame laws N<={N} G={G} W={W} S={S}")
        frames += ck.tlc_shards("Frame", lambda k: frame_cfg(N, G, W, S, True, 12, k, laws=False), 12, f"emit frames N<={N} G={G} W={W} S={S}")
    ck.exhaustive = True
    if not ck.quick:
        frames += ck.tlc("Frame", frame_cfg(9, 3, 3, 1, True, sim=True), "simulate frames N<=9", workers=1, simulate="num=120", depth=9).emitted
    r1 = pmap(_vec, [(c, ck.seed) for c in vec])
    r2 = pmap(_frame, [(c, ck.seed) for c in frames])
    sw = 0
    for c, (viol, nev, flag) in list(zip(vec, r1)) + list(zip(frames, r2)):
        ck.impl += 1
        ck.evaluations += nev
        ck.nt(json.dumps(c["rows"]))
        sw += flag
        for sig, text, detail in viol:
            ck.violation(sig, text, {"rows": c["rows"], **detail})
    ck.sample({"vector_rows": vec[len(vec) // 2]["rows"], "expanded": vec[len(vec) // 2]["expanded"]})
    ck.sample({"frame_rows": frames[len(frames) // 2]["rows"]})
    ck.extra["single_weighted_row_groups"] = sw
    if sw == 0:
        raise MachineryError("vacuity: no single weighted-row group explored")
    ck.assumptions += ["metamorphic equalities at 1e-12 relative (float summation order may differ between a weighted and an expanded run)"]


def replay(ck, path):
    run(ck)
