"""C04 - ThresholdOptimizer equalises the constrained metric exactly on the training data.

Spec: spec/Threshold.tla.  TLC enumerates every multiset of (group, label, score level) rows in
which each group has both labels (Valid) and checks on the specification that the optimal rule
construction equalises (LawPIgnore for equalized odds; interpolation weights by construction).
Binding A: ThresholdOptimizer.fit on every emitted state x configuration; from _pmf_predict on
the training rows the per-group expected constrained metric is computed by plain sums and the
spread over groups must vanish (1e-9).
"""
import json

from harness import thr_common as T
from harness.core import MachineryError

TOL = 1e-9


def run(ck):
    ck.rule = ("every Valid multiset of (group,label,score-level) rows up to N is one TLC state; configurations = 6 constraints x admissible "
               "objectives x flip x grid_size in {1,2,3,4,6,10} (seeded sample per state in quick, more in thorough) + grid_size 1000; "
               "4 materialisations rotate (canonical/shuffled order x level/(L-1) or random monotone scores)")
    cases, jobs, recs = T.explore(ck)
    ties = 0
    for (case, conf, *_), r in zip(jobs, recs):
        ck.impl += 1
        ck.nt(json.dumps([case["rows"], r["config"]]))
        if "error" in r:
            ck.violation({"api": "fit", "kind": "exception", "constraint": r["config"][1]}, f"fit/_pmf_predict raised {r['error']}", r)
            continue
        if not r["pmf_ok"]:
            ck.violation({"api": "_pmf_predict", "kind": "invalid_pmf"}, "pmf outside [0,1] / NaN", r)
            continue
        if not (r["spread"] <= TOL):
            ck.violation({"api": "fit", "kind": "not_equalised", "constraint": r["config"][1], "flip": r["config"][3]},
                         f"constrained metric differs between groups by {r['spread']:.3g} for {r['config']}", r)
    ck.evaluations = len(recs)
    ck.sample({"rows": cases[len(cases) // 2]["rows"], "config": recs[len(recs) // 2].get("config"), "spread": recs[len(recs) // 2].get("spread")})
    ck.extra["datasets"] = len(cases)
    ck.extra["datasets_with_score_ties_across_labels"] = sum(
        1 for c in cases if any(a[0] == b[0] and a[2] == b[2] and a[1] != b[1] for a in c["rows"] for b in c["rows"]))
    if ck.extra["datasets_with_score_ties_across_labels"] == 0:
        raise MachineryError("vacuity: no dataset with tied scores")
    from harness import extras
    extras.dispatch(ck)      # specification growth (refinement tier only): score dispatch and prefit semantics
    ck.assumptions += ["score values enter only through order and ties; levels are mapped to level/(L-1) and to random monotone floats",
                       "expected metrics computed from _pmf_predict on the training rows (plain sums)"]


def replay(ck, path):
    doc = json.load(open(path))
    run(ck)
