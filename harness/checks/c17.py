"""C17 - adversarial fit is the documented step schedule; predict stays in label space.

Specs: AdvSchedule.tla (deterministic machine per configuration; TLC checks step count, slice
coverage, callback numbering, no callback after the max_iter step, stop at the first True, model =
slice sequence), AdvTrace.tla (trace validation), AdvPredict.tla (label-space mapping).
Binding A: every TLC behaviour is replayed into the real estimator with a recording PytorchEngine
subclass (rows carry their id) and recording callbacks - event sequence and n_iter_ must equal the
specification's; the same slices are then issued through partial_fit on an identically configured
estimator and all parameters must be torch.equal.  Binding B: seeded larger geometries are
recorded and validated by TLC against AdvTrace.tla.  Predict clause: raw outputs are forced
(predictor = identity on the input, no-op train_step) for every label encoding.
"""
import json

import numpy as np

from harness.core import pmap, MachineryError

INV = ["TypeOK", "CbNumbers", "SliceOK", "Cover", "AtDone", "ModelIsSlices", "IndMapped"]


def cfg(maxn, maxbs, maxep, maxit, maxstop, maxk, emit, trace=False):
    head = f"CONSTANTS MaxN = {maxn} MaxBS = {maxbs} MaxEp = {maxep} MaxIt = {maxit} MaxStop = {maxstop} MaxK = {maxk} Emit = {'TRUE' if emit else 'FALSE'}\n"
    if trace:
        return head + "SPECIFICATION TSpec\n" + "".join(f"INVARIANT {i}\n" for i in INV) + "CHECK_DEADLOCK FALSE\n"
    return head + "SPECIFICATION Spec\n" + "".join(f"INVARIANT {i}\n" for i in INV) + "INVARIANT EmitInv\nCHECK_DEADLOCK FALSE\n"


def _data(n):
    X = np.column_stack([np.arange(n), np.cos(np.arange(n))]).astype(float)
    y = 0.37 + 0.11 * np.sin(1.3 * np.arange(n) + 0.2)          # continuous, non-integer targets (type 'continuous' for every slice)
    sf = 0.21 + 0.07 * np.cos(0.7 * np.arange(n))
    return X, y, sf


def _make(c, log, rec=True, shuffle=False):
    import torch
    from fairlearn.adversarial import AdversarialFairnessRegressor
    from fairlearn.adversarial._pytorch_engine import PytorchEngine

    class Rec(PytorchEngine):
        def train_step(self, X, Y, A):
            if log is not None:
                ids = [int(v) for v in X[:, 0].tolist()]
                log.append({"ev": "step", "ids": ids})
            return super().train_step(X, Y, A)
    cbs = []
    for k in range(1, c["k"] + 1):
        def cb(est, step, k=k, **kw):
            stop = bool(c["stop"] == step and c["who"] == k)
            log.append({"ev": "cb", "step": int(step), "k": k, "stop": stop})
            return stop
        cbs.append(cb)
    est = AdversarialFairnessRegressor(backend=Rec, predictor_model=[3, "relu"], adversary_model=[2, "sigmoid"], predictor_optimizer="SGD", adversary_optimizer="SGD",
                                       learning_rate=0.02, alpha=0.7, epochs=c["ep"], batch_size=c["bs"], callbacks=cbs if rec else None, shuffle=shuffle, random_state=5)
    est.max_iter = c["mi"]
    return est


def run_cfg(c, prior_ok=False):
    """execute one configuration on the real estimator; returns (events, n_iter_, partial_fit equivalence)"""
    import torch
    log = []
    X, y, sf = _data(c["n"])
    est = _make(c, log)
    # history: in two thirds of the configurations the SAME estimator object has completed a fit before (cold: warm_start=False,
    # warm: warm_start=True); the schedule of a fit - steps, slices, callback numbers 1, 2, ..., n_iter_ - does not depend on that
    prior = [None, "cold", "warm"][(c["n"] + c["bs"] + c["ep"] + c["mi"] + c["stop"] + 3) % 3] if prior_ok else None
    if prior:
        est.set_params(warm_start=(prior == "warm"))
        est.fit(X, y, sensitive_features=sf)
        del log[:]
    est.fit(X, y, sensitive_features=sf)
    events = []
    n_it = 0
    for e in log:
        if e["ev"] == "step":
            ids = e["ids"]
            n_it += 1
            contiguous = ids == list(range(ids[0], ids[-1] + 1))
            events.append({"ev": "step", "lo": ids[0], "hi": ids[-1] + 1, "n_iter": n_it, "contig": contiguous})
        else:
            events.append(e)
    events.append({"ev": "end", "n_iter": int(est.n_iter_)})
    # the same slices through partial_fit on an identically configured estimator
    est2 = _make(c, None, rec=False)
    for e in events:
        if e["ev"] == "step":
            est2.partial_fit(X[e["lo"]:e["hi"]], y[e["lo"]:e["hi"]], sensitive_features=sf[e["lo"]:e["hi"]])
    same = None
    if any(e["ev"] == "step" for e in events) and prior != "warm":       # a warm-started fit continues from the earlier model: the slice equivalence is about a fresh one
        p1 = list(est.backendEngine_.predictor_model.parameters()) + list(est.backendEngine_.adversary_model.parameters())
        p2 = list(est2.backendEngine_.predictor_model.parameters()) + list(est2.backendEngine_.adversary_model.parameters())
        same = len(p1) == len(p2) and all(a.shape == b.shape and torch.allclose(a, b, rtol=0, atol=0, equal_nan=True) for a, b in zip(p1, p2))
    return events, int(est.n_iter_), same


def _replay(ob):
    c = ob["cfg"]
    out = []
    detail = {"cfg": c}
    try:
        events, n_iter, same = run_cfg(c, prior_ok=True)
    except Exception as e:
        return [({"api": "fit", "kind": "exception", "exc": type(e).__name__}, f"fit raised {e!r}", detail)]
    exp = []
    k = 0
    for e in ob["log"]:
        if e["ev"] == "step":
            k += 1
            exp.append(("step", e["lo"], e["hi"], k))
        else:
            exp.append(("cb", e["step"], e["k"]))
    got = [("step", e["lo"], e["hi"], e["n_iter"]) if e["ev"] == "step" else ("cb", e["step"], e["k"]) for e in events if e["ev"] != "end"]
    if any(e["ev"] == "step" and not e["contig"] for e in events):
        out.append(({"api": "fit", "kind": "non_contiguous_slice"}, "a training step did not receive a consecutive row slice", detail))
    if got != exp:
        i = next((j for j, (a, b) in enumerate(zip(got, exp)) if a != b), min(len(got), len(exp)))
        out.append(({"api": "fit", "kind": "schedule", "first_diff": (got[i][0] if i < len(got) else "missing")},
                    f"event {i}: code {got[i] if i < len(got) else None} vs specification {exp[i] if i < len(exp) else None} ({len(got)} vs {len(exp)} events)", {**detail, "got": got[:40], "exp": exp[:40]}))
    if n_iter != ob["n_iter"]:
        out.append(({"api": "n_iter_", "kind": "value"}, f"n_iter_ = {n_iter}, specification {ob['n_iter']}", detail))
    if same is False:
        out.append(({"api": "partial_fit", "kind": "model_differs"}, "fit and the equivalent partial_fit sequence give different parameters", detail))
    return out


def _trace(c):
    try:
        events, n_iter, same = run_cfg(c)
        return {"cfg": c, "shuffle": False, "events": [{k: v for k, v in e.items() if k != "contig"} for e in events], "same": same, "contig": all(e.get("contig", True) for e in events)}
    except Exception as e:
        return {"cfg": c, "error": repr(e)}


def _trace_shuffled(c):
    """extension beyond C17 (refinement tier): shuffle=True - every epoch uses every row exactly once"""
    try:
        log = []
        X, y, sf = _data(c["n"])
        est = _make(c, log, shuffle=True)
        est.fit(X, y, sensitive_features=sf)
        events, k = [], 0
        for e in log:
            if e["ev"] == "step":
                k += 1
                events.append({"ev": "step", "ids": e["ids"], "n_iter": k, "lo": 0, "hi": 0})
            else:
                events.append(e)
        events.append({"ev": "end", "n_iter": int(est.n_iter_)})
        return {"cfg": c, "shuffle": True, "events": events}
    except Exception as e:
        return {"cfg": c, "error": repr(e)}


def _predict(ob):
    """forced raw outputs: predictor = identity on the input, train_step is a no-op"""
    import torch
    from fairlearn.adversarial import AdversarialFairnessClassifier, AdversarialFairnessRegressor
    from fairlearn.adversarial._pytorch_engine import PytorchEngine

    class NoTrain(PytorchEngine):
        def train_step(self, X, Y, A):
            return (0.0, 0.0)

    class Id(torch.nn.Module):
        def __init__(s, k=1):
            super().__init__(); s.d = torch.nn.Parameter(torch.zeros(1)); s.k = k

        def forward(s, X):
            return X[:, :s.k]
    out = []
    raw = [v / 4 for v in ob["raw"]]
    kind = ob["kind"]
    detail = {"kind": kind, "raw": raw}
    try:
        if kind == "binary":
            for labels in ([0, 1], [1, 2], [-1, 1], [-5, -2], ["no", "yes"], ["b", "a"], [True, False]):
                srt = sorted(labels)
                Xtr = np.array([[0.2], [0.8], [0.4], [0.6]]); ytr = np.array([labels[0], labels[1], labels[0], labels[1]]); sf = np.array([0, 1, 1, 0])
                est = AdversarialFairnessClassifier(backend=NoTrain, predictor_model=Id(), adversary_model=Id(), predictor_optimizer="SGD", adversary_optimizer="SGD", random_state=1)
                est.fit(Xtr, ytr, sensitive_features=sf)
                p = est.predict(np.array([[raw[0]]]))
                exp = srt[ob["idx"] - 1]
                if p.tolist()[0] != exp or p.tolist()[0] not in labels:
                    out.append(({"api": "predict", "kind": "binary", "raw": raw[0]}, f"labels {labels}: raw {raw[0]} -> {p.tolist()[0]!r}, specification {exp!r}", detail))
        elif kind == "multiclass":
            for labels in (["c", "a", "b"], [3, 1, 2], [-1, 0, 7]):
                srt = sorted(labels)
                Xtr = np.eye(3); ytr = np.array(labels); sf = np.array([0, 1, 1])
                est = AdversarialFairnessClassifier(backend=NoTrain, predictor_model=Id(3), adversary_model=Id(1), predictor_optimizer="SGD", adversary_optimizer="SGD", random_state=1)
                est.fit(Xtr, ytr, sensitive_features=sf)
                p = est.predict(np.array([raw]))
                exp = srt[ob["idx"] - 1]
                if p.tolist()[0] != exp:
                    out.append(({"api": "predict", "kind": "multiclass"}, f"labels {labels}: raw {raw} -> {p.tolist()[0]!r}, specification {exp!r}", detail))
        else:
            est = AdversarialFairnessRegressor(backend=NoTrain, predictor_model=Id(1), adversary_model=Id(1), predictor_optimizer="SGD", adversary_optimizer="SGD", random_state=1)
            est.fit(np.array([[0.1], [0.2], [0.3]]), np.array([0.5, 1.5, 2.5]), sensitive_features=np.array([0.1, 0.2, 0.9]))
            p = est.predict(np.array([[raw[0]], [7.5]]))
            if abs(p[0] - raw[0]) > 1e-7 or abs(p[1] - 7.5) > 1e-6:
                out.append(({"api": "predict", "kind": "continuous"}, f"regression predict {p.tolist()} != raw outputs {[raw[0], 7.5]}", detail))
    except Exception as e:
        out.append(({"api": "predict", "kind": "exception", "exc": type(e).__name__}, f"raised {e!r}", detail))
    return out


def run(ck):
    ck.rule = ("AdvSchedule.tla: every configuration (n, batch_size incl. -1, epochs incl. -1, max_iter incl. -1, stop step, 1..2 callbacks, which one stops) within the bounds, "
               "each behaviour replayed into the real estimator + partial_fit equivalence; larger seeded geometries validated as traces by TLC; AdvPredict.tla: all raw outputs on the quarter grid x label encodings")
    if ck.quick:
        bounds = (4, 5, 2, 5, 4, 2)
    else:
        bounds = (7, 8, 3, 8, 7, 2)
    beh = ck.tlc("AdvSchedule", cfg(*bounds, True), f"schedule invariants + behaviours, bounds {bounds}", workers=1, timeout=3000).emitted
    ck.exhaustive = True
    if ck.quick:
        rnd = ck.rng("c17"); rnd.shuffle(beh); beh = beh[:1600]
    nstop = nmax = 0
    for ob, viol in zip(beh, pmap(_replay, beh, chunksize=8)):
        ck.impl += 1
        ck.nt(json.dumps(ob["cfg"], sort_keys=True))
        nstop += ob["cfg"]["stop"] > 0 and ob["n_iter"] == ob["cfg"]["stop"]
        nmax += ob["cfg"]["mi"] != -1 and ob["n_iter"] == ob["cfg"]["mi"]
        for sig, text, detail in viol:
            ck.violation(sig, text, detail)
    # ---- B: larger geometries, validated by TLC
    rnd = ck.rng("c17trace")
    tcfgs = []
    for _ in range(150 if ck.quick else 1500):
        n = rnd.randint(8, 60)
        c = {"n": n, "bs": rnd.choice([-1, 1, 3, 7, n, n + 5, rnd.randint(1, n)]), "ep": rnd.choice([-1, 1, 2, 4]), "mi": rnd.choice([-1, -1, 3, 9, 25]),
             "stop": rnd.choice([0, 0, 1, 4, 11]), "k": rnd.randint(1, 3)}
        c["who"] = rnd.randint(1, c["k"]) if c["stop"] else 1
        if c["ep"] == -1 and c["mi"] == -1:
            c["mi"] = 12
        tcfgs.append(c)
    recs = pmap(_trace, tcfgs, chunksize=4)
    traces = [r for r in recs if "events" in r]
    for r in recs:
        if "error" in r:
            ck.violation({"api": "fit", "kind": "exception", "trace": True}, f"fit raised {r['error']}", {"cfg": r["cfg"]})
    acc, diags = ck.validate_traces("AdvTrace", [{"cfg": t["cfg"], "shuffle": False, "events": t["events"]} for t in traces], cfg(0, 0, 0, 0, 0, 3, False, trace=True), "adversarial fit traces", shards=8)
    # extension (refinement tier): shuffle = True
    srecs = [r for r in pmap(_trace_shuffled, tcfgs[: (40 if ck.quick else 300)], chunksize=4) if "events" in r]
    sacc, _ = ck.validate_traces("AdvTrace", [{"cfg": t["cfg"], "shuffle": True, "events": t["events"]} for t in srecs], cfg(0, 0, 0, 0, 0, 3, False, trace=True),
                                 "extension: shuffled fit traces", shards=4, diag=False)
    for t, ok in zip(srecs, sacc):
        if not ok:
            ck.note_drift(f"[extension AdvTrace shuffle=True] trace rejected for cfg {t['cfg']}: an epoch does not use every row exactly once / schedule differs")
    ck.extra["extension_shuffled_traces"] = len(srecs)
    for i, ok in enumerate(acc):
        ck.impl += 1
        if not ok:
            dg = diags.get(i, {})
            ck.violation({"api": "fit", "kind": "trace_rejected", "next_event": (dg.get("next_event") or {}).get("ev")},
                         f"trace rejected by AdvTrace.tla after {dg.get('matched_events')} of {dg.get('of')} events; next event {dg.get('next_event')}", {"cfg": traces[i]["cfg"], "diag": dg})
        if traces[i]["same"] is False:
            ck.violation({"api": "partial_fit", "kind": "model_differs", "trace": True}, "fit and the equivalent partial_fit sequence give different parameters", {"cfg": traces[i]["cfg"]})
        if not traces[i]["contig"]:
            ck.violation({"api": "fit", "kind": "non_contiguous_slice", "trace": True}, "non-consecutive slice", {"cfg": traces[i]["cfg"]})
    # ---- predict clause
    pr = ck.tlc("AdvPredict", "CONSTANTS Emit = TRUE\nSPECIFICATION Spec\nINVARIANT InLabelSpace\nINVARIANT ThresholdIsInclusive\nINVARIANT ArgMaxIsMax\nINVARIANT EmitInv\nCHECK_DEADLOCK FALSE\n",
                "predict mapping: raw grid x kinds", workers=1, timeout=600).emitted
    for ob, viol in zip(pr, pmap(_predict, pr, chunksize=4)):
        ck.impl += 1
        for sig, text, detail in viol:
            ck.violation(sig, text, detail)
    ck.evaluations = ck.impl
    ck.sample(beh[0])
    if traces:
        ck.sample({"trace_cfg": traces[0]["cfg"], "events_head": traces[0]["events"][:5]})
    ck.extra.update({"behaviours_replayed": len(beh), "behaviours_stopped_by_callback": nstop, "behaviours_stopped_by_max_iter": nmax, "traces": len(traces), "predict_cases": len(pr)})
    if nstop == 0 or nmax == 0:
        raise MachineryError("vacuity: no behaviour stopped by a callback / by max_iter")
    from harness import extras2
    extras2.schedule_unbounded(ck)     # Apalache: the schedule invariant is inductive for ALL n / batch_size / epochs / max_iter (AdvScheduleInd.tla)
    from harness import extras
    extras.encode(ck)        # specification growth (refinement tier only): FloatTransformer encoding rules
    ck.assumptions += ["PyTorch backend; regressor with continuous targets for the schedule (every slice has the same target type)", "model equality is exact (torch.equal): both runs perform the same arithmetic"]


def replay(ck, path):
    run(ck)
