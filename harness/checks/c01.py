"""C01 - MetricFrame disaggregation is exact: each cell is the metric on that subgroup.

Spec: spec/FrameCells.tla - a cell is specified by the SET OF ROW POSITIONS it must see.
Binding A: every TLC state (all multisets of feature tuples, layouts 1..3 sensitive x 0..2
control features) is replayed with a row-set fingerprint metric (y_true_i = 2^i, a per-sample
parameter 2^i too), so that the value the code reports for a cell *is* the set of rows and the
set of sliced sample-parameter rows it evaluated; plus real scalar metrics whose expected value
is the metric called directly on the specification's row set.
"""
import json
import math
import random

import numpy as np

from harness.core import pmap, MachineryError

LAYOUTS_Q = [(1, 0, 3, 4), (2, 0, 2, 4), (3, 0, 2, 3), (1, 1, 2, 4), (2, 1, 2, 3), (1, 2, 2, 3), (2, 2, 2, 3), (3, 2, 2, 2)]   # (NS, NC, V, N)
LAYOUTS_T = [(1, 0, 3, 6), (2, 0, 3, 4), (3, 0, 2, 4), (1, 1, 3, 4), (2, 1, 2, 5), (1, 2, 2, 5), (2, 2, 2, 4), (3, 2, 2, 3), (2, 0, 2, 6)]
LABELS = [["t", "b", "m", "c"], [7, 3, 5, 1], ["x", "Y", "k", "A"], ["q", "a", "z", "f"], [2.5, 1.5, 0.5, 9.5]]
BIG = float(2 ** 26)


def cfg(N, NS, NC, V, emit, nshards=1, shard=0, sim=False):
    inv = ["LawIndexSize", "LawPartition", "LawSingleFeature", "EmitInv"]
    return (f"CONSTANTS N = {N} NS = {NS} NC = {NC} V = {V} Emit = {'TRUE' if emit else 'FALSE'} NShards = {nshards} Shard = {shard}\n"
            f"INIT Init\nNEXT {'NextSim' if sim else 'Next'}\n" + "".join(f"INVARIANT {i}\n" for i in inv) + "CHECK_DEADLOCK FALSE\n")


def fingerprint(y_true, y_pred, *, extra=None, tag=None):
    v = float(np.sum(y_true))
    if tag is not None:
        v += BIG * float(np.sum(tag))
    return v


def _decode(v):
    """float fingerprint -> (set of rows seen in y_true, set of rows seen in tag)"""
    if v is None or (isinstance(v, float) and math.isnan(v)):
        return None
    iv = int(round(float(v)))
    lo, hi = iv % (2 ** 26), iv // (2 ** 26)
    bits = lambda x: sorted(i + 1 for i in range(26) if x >> i & 1)
    return bits(lo), bits(hi)


def _label(k, v):
    return LABELS[k % len(LABELS)][v]


def _key(case, key, lo=0):
    labs = tuple(_label(lo + j, v) for j, v in enumerate(key))
    return labs if len(labs) != 1 else labs[0]


class _Shape(Exception):
    """a MetricFrame result does not have the documented shape (cannot be read by column / group key)"""


def _get(res, col, key, has_key):
    import pandas as pd
    x = res
    try:
        if isinstance(x, pd.DataFrame):
            x = x[col]
        elif isinstance(x, pd.Series) and col is not None and not has_key:
            return x[col]
        if has_key:
            return x[key]
    except (IndexError, KeyError, TypeError, AttributeError) as e:
        raise _Shape(f"{type(res).__name__} {res!r} cannot be read at column {col!r} / key {key!r}: {e!r}")
    return x


def _one(args):
    """total verdict: a result that cannot be read as the documented table is a violation, not a crash of the check"""
    try:
        return _one_inner(args)
    except _Shape as e:
        case = args[0]
        return ([({"api": "result_shape", "kind": "unreadable", "ns": case["ns"], "nc": case["nc"]}, f"result not shaped as documented: {e}", {"rows": case["rows"]})],
                1, (bool(case["empty_cell"]), bool(case["singleton"])))


def _one_inner(args):
    case, seed = args
    import pandas as pd
    import fairlearn.metrics as fm
    import sklearn.metrics as skm
    out = []
    nev = 0
    ns, nc = case["ns"], case["nc"]
    nf = ns + nc
    rows = case["rows"]
    n = len(rows)
    rnd = random.Random(hash((seed, json.dumps(rows), ns, nc)) & 0xFFFFFFFF)
    names = ["cf_a", "cf_b"][:nc] + ["sf_x", "sf_y", "sf_z"][:ns]
    for which in ((0, 1) if n > 1 else (0,)):
        order = list(range(n))
        if which:
            rnd.shuffle(order)
        # position -> canonical row id (1-based)
        ids = [order[j] + 1 for j in range(n)]
        feats = [[_label(k, rows[order[j]][k]) for j in range(n)] for k in range(nf)]
        yfp = [2 ** (i - 1) for i in ids]
        yb = [rnd.randint(0, 1) for _ in range(n)]
        pb = [rnd.randint(0, 1) for _ in range(n)]
        wt = [rnd.choice([1, 2, 3]) for _ in range(n)]
        by_id = {i: j for j, i in enumerate(ids)}
        alt = ("dict", "ndarray")[hash((seed, json.dumps(rows))) % 2]
        for container in (("frame",) if which == 0 else (alt,)):
            def pack(lo, hi, base):
                cols = feats[lo:hi]
                nm = names[lo:hi]
                if hi - lo == 1 and container != "frame":
                    return (cols[0] if container == "dict" else np.array(cols[0], dtype=object)), ([nm[0]] if False else [base + "0"])
                if container == "frame":
                    return pd.DataFrame({a: c for a, c in zip(nm, cols)}), nm
                if container == "dict":
                    return {a: c for a, c in zip(nm, cols)}, nm
                return np.array(cols, dtype=object).T.reshape(n, hi - lo), [f"{base}{i}" for i in range(hi - lo)]
            sf, sf_names = pack(nc, nf, "sensitive_feature_")
            cf, cf_names = pack(0, nc, "control_feature_") if nc else (None, None)
            if n == 1 and container == "ndarray":
                continue   # 1-row ndarray features are a container question (C12), not disaggregation
            detail = {"container": container, "features": feats, "names": names, "order": order}
            sig0 = {"ns": ns, "nc": nc}
            for form in (("callable_param", "dict") if which == 0 or n == 1 else ("callable_plain", "dict")):
                try:
                    if form == "dict":
                        # three entries share ONE callable: with the id tags, without parameter, and with bit-reversed id tags
                        # (each entry must be evaluated with its own per-sample parameter)
                        yrev = [2 ** (n - i) for i in ids]
                        mf = fm.MetricFrame(metrics={"fp": fingerprint, "cnt": fm.count, "fp2": fingerprint, "fp3": fingerprint}, y_true=yfp, y_pred=yfp,
                                            sensitive_features=sf, control_features=cf, sample_params={"fp": {"tag": yfp}, "fp3": {"tag": yrev}})
                        cols = {"fp": True, "fp2": False, "fp3": "rev"}
                    elif form == "callable_param":
                        # the per-sample parameter arrives as a Series whose labels are a permutation of 0..n-1: slicing must stay positional
                        lab = list(range(n)); rnd.shuffle(lab)
                        mf = fm.MetricFrame(metrics=fingerprint, y_true=yfp, y_pred=yfp, sensitive_features=sf, control_features=cf,
                                            sample_params={"extra": None, "tag": pd.Series(yfp, index=lab)})     # a None-valued parameter listed first is simply not passed
                        cols = {None: True}
                    else:
                        mf = fm.MetricFrame(metrics=fingerprint, y_true=yfp, y_pred=yfp, sensitive_features=sf, control_features=cf)
                        cols = {None: False}
                except Exception as e:
                    out.append(({"api": "MetricFrame", "kind": "exception", "container": container, **sig0}, f"MetricFrame raised {e!r}", detail))
                    continue
                nev += 1
                bg = mf.by_group
                # --- index: exactly the observed values / their Cartesian product
                exp_index = {_key(case, c["key"]) for c in case["cells"]}
                if not isinstance(bg, (pd.Series, pd.DataFrame)):
                    # total verdict: a by_group that is not a table indexed by the groups (e.g. a bare scalar for a single group) is an index violation
                    out.append(({"api": "by_group.index", "kind": "not_a_table", "single_row": len(exp_index) == 1, **sig0},
                                f"by_group is a {type(bg).__name__} ({bg!r}), not a Series/DataFrame indexed by {sorted(map(str, exp_index))}", detail))
                    continue
                got_index = list(bg.index)
                if set(got_index) != exp_index or len(got_index) != len(exp_index):
                    out.append(({"api": "by_group.index", "kind": "index", **sig0}, f"by_group index {sorted(map(str, got_index))} != product of observed values {sorted(map(str, exp_index))}", detail))
                    continue
                if list(bg.index.names) != (cf_names or []) + sf_names:
                    out.append(({"api": "by_group.index", "kind": "names", **sig0}, f"index names {list(bg.index.names)} != {(cf_names or []) + sf_names}", detail))
                if mf.sensitive_levels != sf_names or (mf.control_levels or None) != cf_names:
                    out.append(({"api": "levels", "kind": "names", **sig0}, f"levels {mf.sensitive_levels}/{mf.control_levels}", detail))
                def unrev(dec, flag):
                    if dec is None or flag != "rev":
                        return dec
                    return dec[0], sorted(n + 1 - b for b in dec[1])
                for col, has_param in cols.items():
                    for c in case["cells"]:
                        got = unrev(_decode(_get(bg, col, _key(case, c["key"]), True)), has_param)
                        exp = None if not c["rows"] else (c["rows"], c["rows"] if has_param else [])
                        if got != exp:
                            out.append(({"api": "by_group", "kind": "rowset", "empty": not c["rows"], "param": has_param, **sig0},
                                        f"cell {_key(case, c['key'])} evaluated on rows/param-rows {got}, specification {exp}", detail))
                    for o in case["overall"]:
                        got = unrev(_decode(_get(mf.overall, col, _key(case, o["key"]) if nc else None, nc > 0)), has_param)
                        exp = None if not o["rows"] else (o["rows"], o["rows"] if has_param else [])
                        if got != exp:
                            out.append(({"api": "overall", "kind": "rowset", "param": has_param, **sig0},
                                        f"overall {o['key']} evaluated on {got}, specification {exp}", detail))
                if form == "dict":
                    for c in case["cells"]:
                        got = _get(bg, "cnt", _key(case, c["key"]), True)
                        if (c["rows"] and got != len(c["rows"])) or (not c["rows"] and not (isinstance(got, float) and math.isnan(got))):
                            out.append(({"api": "by_group", "kind": "count", **sig0}, f"count cell {c['key']} = {got!r}, expected {len(c['rows'])}", detail))
            # --- real scalar metrics: expected = the metric called directly on the specification's row set
            real = {"sel": fm.selection_rate, "mean": fm.mean_prediction, "acc": skm.accuracy_score}
            for weighted in ((True, False) if n == 1 else ((True,) if which == 0 else (False,))):
                try:
                    sp = {k: {"sample_weight": wt} for k in real} if weighted else None
                    mf = fm.MetricFrame(metrics=real, y_true=yb, y_pred=pb, sensitive_features=sf, control_features=cf, sample_params=sp)
                    nev += 1
                    for c in case["cells"]:
                        for k, fn in real.items():
                            got = _get(mf.by_group, k, _key(case, c["key"]), True)
                            if not c["rows"]:
                                ok = isinstance(got, float) and math.isnan(got)
                                exp = float("nan")
                            else:
                                pos = [by_id[i] for i in c["rows"]]
                                kw = {"sample_weight": [wt[j] for j in pos]} if weighted else {}
                                exp = fn([yb[j] for j in pos], [pb[j] for j in pos], **kw)
                                ok = np.ndim(got) == 0 and abs(float(got) - float(exp)) <= 1e-12
                            if not ok:
                                out.append(({"api": "by_group", "kind": "value", "metric": k, **sig0}, f"cell {c['key']} {k} = {got!r}, metric on those rows = {exp!r}", detail))
                    for o in case["overall"]:
                        for k, fn in real.items():
                            got = _get(mf.overall, k, _key(case, o["key"]) if nc else None, nc > 0)
                            if not o["rows"]:
                                ok = isinstance(got, float) and math.isnan(got)
                                exp = float("nan")
                            else:
                                pos = [by_id[i] for i in o["rows"]]
                                kw = {"sample_weight": [wt[j] for j in pos]} if weighted else {}
                                exp = fn([yb[j] for j in pos], [pb[j] for j in pos], **kw)
                                ok = np.ndim(got) == 0 and abs(float(got) - float(exp)) <= 1e-12
                            if not ok:
                                out.append(({"api": "overall", "kind": "value", "metric": k, **sig0}, f"overall {o['key']} {k} = {got!r}, metric on those rows = {exp!r}", detail))
                except Exception as e:
                    out.append(({"api": "MetricFrame", "kind": "exception", "real": True, **sig0}, f"MetricFrame(real metrics) raised {e!r}", detail))
    return out, nev, (bool(case["empty_cell"]), bool(case["singleton"]))


def run(ck):
    ck.rule = ("every multiset of feature tuples up to N rows for each layout (NS sensitive x NC control features, V values) is one TLC state; "
               "replayed in canonical and shuffled order, DataFrame / dict / ndarray feature containers, fingerprint metric bare, with per-sample parameter and in a dict, plus 3 real metrics weighted/unweighted")
    cases = []
    for (NS, NC, V, N) in (LAYOUTS_Q if ck.quick else LAYOUTS_T):
        cases += ck.tlc_shards("FrameCells", lambda k: cfg(N, NS, NC, V, True, 4, k), 4, f"laws+emit NS={NS} NC={NC} V={V} N<={N}")
    ck.exhaustive = True
    if not ck.quick:
        for (NS, NC, V) in ((2, 1, 3), (3, 2, 2), (1, 0, 4)):
            cases += ck.tlc("FrameCells", cfg(9, NS, NC, V, True, sim=True), f"simulate NS={NS} NC={NC}", workers=1, simulate="num=150", depth=9).emitted
    res = pmap(_one, [(c, ck.seed) for c in cases])
    ne = nsg = 0
    for c, (viol, nev, flags) in zip(cases, res):
        ck.impl += 1
        ck.evaluations += nev
        ck.nt(json.dumps([c["ns"], c["nc"], c["rows"]]))
        ne += flags[0]; nsg += flags[1]
        for sig, text, detail in viol:
            ck.violation(sig, text, {"ns": c["ns"], "nc": c["nc"], "rows": c["rows"], **detail})
    ck.sample(cases[len(cases) // 3])
    ck.sample(cases[-1])
    ck.extra.update({"states_with_empty_combination": ne, "states_with_single_member_group": nsg, "layouts": LAYOUTS_Q if ck.quick else LAYOUTS_T})
    if ne == 0 or nsg == 0:
        raise MachineryError("vacuity: empty combinations / single-member groups not reached")
    ck.assumptions += ["fingerprints are exact in float64 for n <= 26 rows", "1-row ndarray feature containers are left to C12"]
    from harness import extras
    extras.naming(ck, limit=1600 if ck.quick else None)      # specification growth (refinement tier only): feature naming rules


def replay(ck, path):
    doc = json.load(open(path))
    c = [x for x in doc["cases"] if x][0]
    N = len(c["rows"]); V = max(max(r) for r in c["rows"]) + 1
    allc = ck.tlc_shards("FrameCells", lambda k: cfg(N, c["ns"], c["nc"], max(2, V), True, 4, k), 4, "emit for replay")
    want = json.dumps(sorted(c["rows"]))
    cases = [x for x in allc if json.dumps(sorted(x["rows"])) == want] or allc[:20]
    for x, (viol, nev, flags) in zip(cases, pmap(_one, [(x, ck.seed) for x in cases])):
        ck.impl += 1
        for sig, text, detail in viol:
            ck.violation(sig, text, {"rows": x["rows"], **detail})
    ck.sample(cases[0])
