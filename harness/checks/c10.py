"""C10 - randomised predictors sample from the probability mass function they report.

Specs: Threshold.tla (the thresholder's pmf is a function of (score, group); the models are the
ones fitted on TLC's Valid datasets), EG.tla / Moments.tla (EG's pmf is the weights_-weighted
mixture of the stored predictors, aligned BY PREDICTOR ID; models fitted on TLC's payoff-table
datasets, incl. runs without the LP step and regression with BoundedGroupLoss).  What TLA+ can
state about `predict` is the support rule and determinism; the frequency clause is statistical
and is decided by a fixed-seed 6-sigma test (DESIGN section 8).
"""
import json
import math

import numpy as np

from harness.core import pmap, MachineryError
from harness import thr_common as T
from harness import eg_common as E
from harness import mom_common as M
from harness import red_common as RC
from harness.checks import c08


def _to_freq(args):
    """frequency clause for one fitted ThresholdOptimizer"""
    case, config, seed, which = args
    from fairlearn.postprocessing import ThresholdOptimizer
    kind, ci, oi, fi, ki = config
    g, y, s, level = T.materialise(case, seed, which)
    X = np.array(s, dtype=float).reshape(-1, 1)
    cons = "equalized_odds" if kind == "eo" else T.CON_NAMES[T.CON[ci]][0]
    obj = T.OBJ_NAMES[["acc", "bal"][oi]] if kind == "eo" else T.OBJ_NAMES[T.OBJ[oi]]
    to = ThresholdOptimizer(estimator=T.Passthrough(), constraints=cons, objective=obj, grid_size=case["gs"][ki], flip=bool(fi),
                            prefit=True, predict_method="predict")
    to.fit(X, y, sensitive_features=g)
    groups = sorted(set(g))
    q = [(sv, a) for a in groups for sv in level]
    Xq = np.array([sv for sv, a in q], dtype=float).reshape(-1, 1)
    gq = [a for sv, a in q]
    bad, nq = T.frequency_clause(to, Xq, gq, reps=3000, seed=seed + 5)
    return bad, nq, [cons, obj, bool(fi), case["gs"][ki]]


def _reg(args):
    """EG regression (BoundedGroupLoss): predict returns the value of ONE stored predictor chosen with ITS OWN weight"""
    case, conf, seed = args
    import fairlearn.reductions as red
    lossname, ub, eps_b, max_iter, run_lp, which = conf
    out = []
    d = M.materialise(case, seed, which)
    F = case["F"]
    detail = {"config": conf, "data": {k: d[k] for k in ("g", "y", "f")}}
    loss = red.SquareLoss(0, 1) if lossname == "square" else red.AbsoluteLoss(0, 1)
    try:
        yreal = np.array([(2 * yy + (j % 3)) / 4 for j, yy in enumerate(d["y"])], dtype=float)      # real-valued targets in {0, .25, .., 1}
        detail["y_real"] = yreal.tolist()
        eg = red.ExponentiatedGradient(RC.WMean(), red.BoundedGroupLoss(loss, upper_bound=ub),
                                       eps=eps_b, max_iter=max_iter, run_linprog_step=bool(run_lp), nu=1e-6)
        eg.fit(d["X"], yreal, sensitive_features=d["g"])
    except Exception as e:
        if "sample_weight contains NaN" in str(e) or "at least one non-zero" in str(e):
            return out, {"skipped": True}
        return [({"api": "EG.fit(BGL)", "kind": "exception", "exc": type(e).__name__}, f"raised {e!r}", detail)], {}
    w = eg.weights_
    info = {"n_hs": len(eg.predictors_), "support": int((w > 0).sum()), "weights_index_in_order": list(w.index) == sorted(w.index)}
    if abs(w.sum() - 1) > 1e-9 or (w.values < -1e-12).any() or set(w.index) != set(range(len(eg.predictors_))):
        return [({"api": "weights_", "kind": "not_distribution"}, f"weights_ {dict(w)}", detail)], info
    Xq = np.array([[j, f] for j, f in enumerate(range(F))], dtype=float)
    outs = [np.asarray(p.predict(Xq), dtype=float) for p in eg.predictors_]
    y1 = eg.predict(Xq, random_state=seed)
    y2 = eg.predict(Xq, random_state=seed)
    if not np.array_equal(y1, y2):
        out.append(({"api": "EG.predict(BGL)", "kind": "predict_not_reproducible"}, "same random_state, different values", detail))
    reps = 3000
    Xr = np.repeat(Xq, reps, axis=0)
    ys = np.asarray(eg.predict(Xr, random_state=seed + 1)).reshape(F, reps)
    for f in range(F):
        expd = {}
        for k, o in enumerate(outs):
            expd[float(o[f])] = expd.get(float(o[f]), 0.0) + float(w[k])
        vals, cnts = np.unique(ys[f], return_counts=True)
        for v, c in zip(vals, cnts):
            pv = expd.get(float(v), None)
            fr = c / reps
            if pv is None or pv <= 1e-15:
                out.append(({"api": "EG.predict(BGL)", "kind": "value_of_zero_weight_predictor", "weights_in_id_order": info["weights_index_in_order"]},
                            f"predict returned {v} for feature {f} with frequency {fr}, but no stored predictor with positive weight outputs it (weights {dict(w)}, outputs {[float(o[f]) for o in outs]})", detail))
                break
            sd = math.sqrt(max(pv * (1 - pv), 1e-12) / reps)
            if abs(fr - pv) > 6 * sd + 1e-9:
                out.append(({"api": "EG.predict(BGL)", "kind": "frequency", "weights_in_id_order": info["weights_index_in_order"]},
                            f"value {v} drawn with frequency {fr}, its predictors' total weight is {pv}", detail))
                break
    return out, info


def _cls_nolp(args):
    """classification EG without the LP step on larger simulated data: the index of weights_ is often NOT in id order there"""
    case, conf, seed = args
    import fairlearn.reductions as red
    kind, eps_b, max_iter, which = conf
    d = M.materialise(case, seed, which)
    F = case["F"]
    detail = {"config": conf, "data": {k: d[k] for k in ("g", "y", "f")}}
    try:
        eg = red.ExponentiatedGradient(RC.ExactLearner(), M.make_moment(kind, [1, 1], 0.02), eps=eps_b, max_iter=max_iter, run_linprog_step=False, nu=1e-6)
        eg.fit(d["X"], np.array(d["y"]), sensitive_features=d["g"])
    except Exception as e:
        if "sample_weight contains NaN" in str(e) or "at least one non-zero" in str(e):
            return [], {"skipped": True}
        return [({"api": "EG.fit", "kind": "exception", "exc": type(e).__name__}, f"raised {e!r}", detail)], {}
    w = eg.weights_
    viol, drift = E.c10_eg(eg, None, F, seed, {"moment": kind, "run_lp": False}, detail)
    return viol, {"unordered": list(w.index) != sorted(w.index), "support": int((w > 0).sum())}


def run(ck):
    ck.rule = ("ThresholdOptimizer models: fitted on every Valid TLC dataset for a seeded sample of configurations (pmf clauses on a scrambled query set with duplicates and "
               "off-level scores, 12 seeds; frequency clause on a sub-sample); EG models: fits of C08 (classification) and BoundedGroupLoss regression fits without the LP step")
    # ---- thresholder
    cases, jobs, recs = T.explore(ck, want_c10=True, per_case=12 if ck.quick else 48, quick_gs=[2, 3, 10])
    nq = nfrac = ndet = 0
    for (case, conf, *_), r in zip(jobs, recs):
        if "c10" not in r:
            continue
        ck.impl += 1
        ck.nt(json.dumps([case["rows"], r["config"]]))
        c = r["c10"]
        nq += c["n_query"]; nfrac += c["n_frac"]; ndet += c["n_det"]
        for kind, text in c["bad"]:
            ck.violation({"api": "ThresholdOptimizer", "kind": kind, "flip": r["config"][3]}, text, r)
        if c["drift"]:
            ck.note_drift(f"thresholder predict differs from [p >= RandomState(seed).rand(n)] for {c['drift']} seeds, config {r['config']}")
        if not r.get("pmf_ok", True):
            ck.violation({"api": "ThresholdOptimizer", "kind": "pmf_invalid"}, "training-set pmf invalid", r)
    rnd = ck.rng("c10freq")
    fjobs = [(c, rnd.choice(T.all_configs(c["gs"])), ck.seed, rnd.randrange(4)) for c in rnd.sample(cases, min(len(cases), 60 if ck.quick else 400))]
    for (case, conf, *_), (bad, n, cfgname) in zip(fjobs, pmap(_to_freq, fjobs)):
        ck.impl += 1
        nq += n
        for pv, fr in bad:
            ck.violation({"api": "ThresholdOptimizer", "kind": "frequency"}, f"probability {pv} but frequency {fr} over 3000 replicated rows ({cfgname})", {"rows": case["rows"], "config": cfgname})
    # ---- EG classification (same fits as C08, with the pmf clauses switched on)
    ejobs = c08.make_jobs(ck, want_c10=True)
    if ck.quick:
        ejobs = ejobs[:240]
    erecs = pmap(E.run_fit, ejobs, chunksize=4)
    multi = 0
    for (c, conf, *_), r in zip(ejobs, erecs):
        if not r.get("c10"):
            continue
        ck.impl += 1
        ck.nt(json.dumps([c["rows"], conf]))
        viol, drift = r["c10"]
        multi += (r.get("info") or {}).get("support", 0) > 1
        for sig, text, detail in viol:
            ck.violation(sig, text, {"rows": c["rows"], **detail})
        if drift:
            ck.note_drift(f"EG predict differs from [p >= RandomState(seed).rand(n)] for {drift} seeds")
    # ---- EG regression
    sim = ck.tlc("Moments", M.cfg(12, 3, 1, 3, True, mode="table", laws=(), sim=True, kinds=["DP"]), "simulate larger datasets for the regression fits (N<=12 G=3 F=3)",
                 workers=1, simulate="num=%d" % (12 if ck.quick else 60), depth=12, timeout=1500)
    tcases = [c for c in sim.emitted if len(c["rows"]) >= 6]
    rjobs = [(c, ("square", rnd.choice([0.01, 0.05, 0.1, 0.2]), rnd.choice([0.01, 0.05, 0.2]), rnd.choice([5, 10, 20]), rnd.random() < 0.4, rnd.randrange(2)), ck.seed)
             for c in tcases for _ in range(2)]
    unordered = rsupport = 0
    for (c, conf, _), (viol, info) in zip(rjobs, pmap(_reg, rjobs, chunksize=2)):
        ck.impl += 1
        ck.nt(json.dumps([c["rows"], conf]))
        unordered += info.get("weights_index_in_order") is False
        rsupport += info.get("support", 0) > 1
        for sig, text, detail in viol:
            ck.violation(sig, text, {"rows": c["rows"], **detail})
    cjobs = [(c, (rnd.choice(["DP", "EO", "TPR"]), rnd.choice([0.02, 0.05, 0.2]), rnd.choice([10, 20, 40]), rnd.randrange(2)), ck.seed)
             for c in tcases if len({r[1] for r in c["rows"]}) == 2 for _ in range(2)]
    cls_unordered = 0
    for (c, conf, _), (viol, info) in zip(cjobs, pmap(_cls_nolp, cjobs, chunksize=2)):
        ck.impl += 1
        ck.nt(json.dumps([c["rows"], conf]))
        cls_unordered += bool(info.get("unordered"))
        for sig, text, detail in viol:
            ck.violation(sig, text, {"rows": c["rows"], **detail})
    ck.extra["classification_models_whose_weights_index_is_not_in_id_order"] = cls_unordered
    ck.evaluations = ck.impl
    ck.sample({"thresholder_config": recs[0].get("config"), "c10": {k: v for k, v in (recs[0].get("c10") or {}).items() if k != "bad"}})
    ck.sample({"eg_config": ejobs[0][1], "eg_info": erecs[0].get("info")})
    ck.extra.update({"threshold_query_rows": nq, "fractional_probabilities": nfrac, "deterministic_rows": ndet, "eg_models_with_mixed_support": multi,
                     "regression_models_with_mixed_support": rsupport, "regression_models_whose_weights_index_is_not_in_id_order": unordered})
    if nfrac == 0 or ndet == 0 or multi == 0 or rsupport == 0 or unordered == 0:
        raise MachineryError(f"vacuity: frac {nfrac} det {ndet} mixed EG {multi} mixed regression {rsupport} unordered weights {unordered}")
    from harness import extras2
    extras2.interp(ck)       # specification growth (refinement tier only): InterpolatedThresholder with a hand-written rule table
    ck.assumptions += ["frequency clause: 3000 replicated rows per query point in one predict call, fixed seeds, 6-sigma acceptance (outside TLC)",
                       "refinement tier (NOTE only): label = [p >= U] with U = RandomState(seed).rand(n)"]


def replay(ck, path):
    run(ck)
