"""C13 - multiple sensitive/control columns group rows by tuple equality, collision-free.

Spec: spec/Merge.tla (Escape / Merge / Unmerge over an alphabet with the separator and the escape
character; TLC checks Unmerge(Merge(t)) = t and injectivity for every tuple, and finds for each
tuple a "twin" that collides under the two wrong merges: no escaping, separator-only escaping).
Binding A: _merge_columns on every TLC tuple (property tier: injective; refinement tier: exact
string); tables built from the colliding twins are fed through the parity moments, MetricFrame,
ExponentiatedGradient, GridSearch and ThresholdOptimizer and must behave exactly like the same
table with canonical group ids.
"""
import json
import random

import numpy as np

from harness.core import pmap, MachineryError
from harness import red_common as RC
from harness import thr_common as T

CH = {"b": "\\", "c": ",", "a": "a", "1": "1"}


def cfg(maxlen, ncols, emit=True):
    return (f"CONSTANTS MaxLen = {maxlen} NCols = {ncols} Emit = {'TRUE' if emit else 'FALSE'}\nSPECIFICATION Spec\n"
            "INVARIANT RoundTrip\nINVARIANT Injective\nINVARIANT EmitInv\nCHECK_DEADLOCK FALSE\n")


def s_of(seq):
    return "".join(CH[c] for c in seq)


def tup_of(t):
    return tuple(s_of(x) for x in t)


def _table(args):
    """one adversarial table: groups = a tuple, its twins and two other tuples"""
    tuples, seed, ncols = args
    import pandas as pd
    import fairlearn.reductions as red
    import fairlearn.metrics as fm
    from fairlearn.postprocessing import ThresholdOptimizer
    from fairlearn.utils._input_validation import _merge_columns
    out = []
    rnd = random.Random(seed)
    k = len(tuples)
    n = 4 * k
    # every group gets both labels and two feature values
    rows = [(gi, y, f) for gi in range(k) for (y, f) in ((0, 0), (1, 1), (rnd.randint(0, 1), rnd.randint(0, 1)), (rnd.randint(0, 1), rnd.randint(0, 1)))]
    rnd.shuffle(rows)
    gi = [r[0] for r in rows]
    y = np.array([r[1] for r in rows])
    X = np.array([[j, r[2]] for j, r in enumerate(rows)], dtype=float)
    sf = pd.DataFrame({f"col{c}": [tuples[g][c] for g in gi] for c in range(ncols)})
    merged = [str(v) for v in _merge_columns(sf.to_numpy().astype(str))]
    detail = {"tuples": [list(t) for t in tuples], "group_of_row": gi}
    # partition induced by the code's merged key == partition by tuple
    part_code = {}
    for j, m in enumerate(merged):
        part_code.setdefault(m, []).append(j)
    part_spec = {}
    for j, g in enumerate(gi):
        part_spec.setdefault(g, []).append(j)
    if sorted(part_code.values()) != sorted(part_spec.values()):
        out.append(({"api": "_merge_columns", "kind": "partition"}, f"merged keys {sorted(part_code)} induce a different partition than the tuples", detail))
        return out
    # canonical ids with the same sort order as the merged keys (so that both runs do identical arithmetic)
    order = {m: i for i, m in enumerate(sorted(part_code))}
    canon = [f"k{order[m]:02d}" for m in merged]
    c2m = {f"k{order[m]:02d}": m for m in part_code}
    for container in ("frame", "ndarray"):
        sfc = sf if container == "frame" else sf.to_numpy()
        # ---- moments: same gamma / index as with canonical ids; groups = MetricFrame's non-empty intersections
        for cls in (red.DemographicParity, red.EqualizedOdds, red.ErrorRateParity):
            try:
                m1 = cls(difference_bound=0.05); m1.load_data(X, y, sensitive_features=sfc)
                m2 = cls(difference_bound=0.05); m2.load_data(X, y, sensitive_features=canon)
                h = (X[:, 1] + (X[:, 0] % 3 == 0)) % 2
                g1 = m1.gamma(lambda Z: h); g2 = m2.gamma(lambda Z: h)
                groups1 = {kx[2] for kx in m1.index}
                if len(groups1) != k:
                    out.append(({"api": cls.__name__, "kind": "group_count"}, f"{len(groups1)} groups for {k} distinct tuples", detail))
                    continue
                for key2 in m2.index:
                    key1 = (key2[0], key2[1], c2m[key2[2]])
                    if key1 not in g1.index or g1[key1] != g2[key2]:
                        out.append(({"api": cls.__name__, "kind": "gamma"}, f"gamma{key1} differs from the canonical-id run", detail))
                        break
                lam = pd.Series(np.linspace(0.1, 1.0, len(m2.index)), index=m2.index)
                lam1 = pd.Series([lam[(a, b, f"k{order[c]:02d}")] for (a, b, c) in m1.index], index=m1.index)
                if not np.array_equal(np.asarray(m1.signed_weights(lam1)), np.asarray(m2.signed_weights(lam))):
                    out.append(({"api": cls.__name__, "kind": "signed_weights"}, "signed_weights differ from the canonical-id run", detail))
            except Exception as e:
                out.append(({"api": cls.__name__, "kind": "exception"}, f"raised {e!r}", detail))
        # control features with several columns as well
        try:
            cf = (sf if container == "frame" else sf.to_numpy())
            sfa = ["s%d" % (j % 2) for j in range(n)]
            m1 = red.DemographicParity(); m1.load_data(X, y, sensitive_features=sfa, control_features=cf)
            m2 = red.DemographicParity(); m2.load_data(X, y, sensitive_features=sfa, control_features=canon)
            if len({kx[1] for kx in m1.index}) != len({kx[1] for kx in m2.index}):
                out.append(({"api": "DemographicParity(control)", "kind": "stratum_count"}, "control strata differ from the canonical-id run", detail))
        except Exception as e:
            out.append(({"api": "DemographicParity(control)", "kind": "exception"}, f"raised {e!r}", detail))
        mf = fm.MetricFrame(metrics=fm.count, y_true=y, y_pred=y, sensitive_features=sf)
        nonempty = {tuple(ix): int(v) for ix, v in mf.by_group.items() if v == v}
        if {tuples[g]: len(js) for g, js in part_spec.items()} != nonempty:
            out.append(({"api": "MetricFrame", "kind": "partition"}, "MetricFrame's non-empty intersectional groups differ from the tuple partition", detail))
        # ---- EG / GridSearch
        try:
            e1 = red.ExponentiatedGradient(RC.ExactLearner(), red.DemographicParity(difference_bound=0.05), max_iter=8, eps=0.1); e1.fit(X, y, sensitive_features=sfc)
            e2 = red.ExponentiatedGradient(RC.ExactLearner(), red.DemographicParity(difference_bound=0.05), max_iter=8, eps=0.1); e2.fit(X, y, sensitive_features=canon)
            if not (np.array_equal(e1.weights_.values, e2.weights_.values) and [RC.hyp_of(p, 2) for p in e1.predictors_] == [RC.hyp_of(p, 2) for p in e2.predictors_]):
                out.append(({"api": "ExponentiatedGradient", "kind": "model"}, "model differs from the canonical-id run", detail))
            g1 = red.GridSearch(RC.ExactLearner(), red.EqualizedOdds(), grid_size=7); g1.fit(X, y, sensitive_features=sfc)
            g2 = red.GridSearch(RC.ExactLearner(), red.EqualizedOdds(), grid_size=7); g2.fit(X, y, sensitive_features=canon)
            if not (np.array_equal(g1.lambda_vecs_.values, g2.lambda_vecs_.values) and g1.best_idx_ == g2.best_idx_
                    and [RC.hyp_of(p, 2) for p in g1.predictors_] == [RC.hyp_of(p, 2) for p in g2.predictors_]):
                out.append(({"api": "GridSearch", "kind": "model"}, "model differs from the canonical-id run", detail))
        except Exception as e:
            out.append(({"api": "reductions", "kind": "exception"}, f"raised {e!r}", detail))
        # ---- ThresholdOptimizer: fit-time rule per tuple applied at predict time
        try:
            scores = np.array([[(j * 7 % 11) / 10.0] for j in range(n)])
            for cons in ("demographic_parity", "equalized_odds"):
                t1 = ThresholdOptimizer(estimator=T.Passthrough(), constraints=cons, prefit=True, predict_method="predict", grid_size=20, flip=True)
                t1.fit(scores, y, sensitive_features=sfc)
                t2 = ThresholdOptimizer(estimator=T.Passthrough(), constraints=cons, prefit=True, predict_method="predict", grid_size=20, flip=True)
                t2.fit(scores, y, sensitive_features=canon)
                keys = set(t1.interpolated_thresholder_.interpolation_dict.keys())
                if len(keys) != k:
                    out.append(({"api": "ThresholdOptimizer", "kind": "group_count"}, f"{len(keys)} rules for {k} tuples", detail))
                if keys != set(part_code):
                    out.append(({"api": "ThresholdOptimizer", "kind": "keys_drift"}, "interpolation_dict keys are not the Merge strings", detail))
                perm = list(range(n)); rnd.shuffle(perm); perm = perm[: n - 3]          # permuted subset (some groups rarer) at predict time
                q1 = sf.iloc[perm] if container == "frame" else sf.to_numpy()[perm]
                p1 = t1._pmf_predict(scores[perm], sensitive_features=q1)
                p2 = t2._pmf_predict(scores[perm], sensitive_features=[canon[j] for j in perm])
                if not np.array_equal(p1, p2):
                    out.append(({"api": "ThresholdOptimizer", "kind": "pmf"}, f"{cons}: pmf differs from the canonical-id run", detail))
                for gsel in range(k):          # predict on the rows of ONE tuple only, and on all but one tuple
                    for rowsel in ([j for j in range(n) if gi[j] == gsel], [j for j in range(n) if gi[j] != gsel]):
                        qq = sf.iloc[rowsel] if container == "frame" else sf.to_numpy()[rowsel]
                        pa = t1._pmf_predict(scores[rowsel], sensitive_features=qq)
                        pb = t2._pmf_predict(scores[rowsel], sensitive_features=[canon[j] for j in rowsel])
                        if not np.array_equal(pa, pb):
                            out.append(({"api": "ThresholdOptimizer", "kind": "pmf_subset"},
                                        f"{cons}: predicting on a subset of the fit-time tuples ({sorted({tuples[gi[j]] for j in rowsel})}) does not apply the fit-time rules", detail))
                            break
        except Exception as e:
            out.append(({"api": "ThresholdOptimizer", "kind": "exception"}, f"raised {e!r}", detail))
    return out


def run(ck):
    ck.rule = ("Merge.tla: every tuple of NCols strings (length <= MaxLen over {',', '\\\\', 'a', '1'}, empty string included) is one TLC state; _merge_columns replayed on each; "
               "tables: a tuple + its colliding twins (under unescaped / half-escaped joins, found by TLC) + further tuples, through moments, MetricFrame, EG, GridSearch, ThresholdOptimizer")
    from fairlearn.utils._input_validation import _merge_columns
    emits = [(2, 2), (1, 3)] if ck.quick else [(2, 2), (1, 3), (3, 2)]
    allobs = []
    for (ml, nc) in emits:
        r = ck.tlc("Merge", cfg(ml, nc), f"round trip + injectivity MaxLen={ml} NCols={nc}", workers=1 if ml * nc <= 4 else 8, timeout=3000)
        obs = r.emitted
        allobs.append((nc, obs))
        merged_code = _merge_columns(np.array([tup_of(o["tuple"]) for o in obs], dtype=str).reshape(len(obs), nc))
        ck.impl += len(obs)
        if len(set(merged_code)) != len(obs):
            ck.violation({"api": "_merge_columns", "kind": "collision"}, f"{len(obs) - len(set(merged_code))} collisions among {len(obs)} distinct tuples", {"ncols": nc})
        for o, mc in zip(obs, merged_code):
            ck.nt(json.dumps(o["tuple"]))
            if str(mc) != s_of(o["merged"]):
                ck.note_drift(f"_merge_columns{tup_of(o['tuple'])} = {mc!r}, Merge.tla gives {s_of(o['merged'])!r}")
    ck.exhaustive = True
    jobs = []
    rnd = ck.rng("c13")
    for nc, obs in allobs:
        tw = [o for o in obs if o["naive_twin"] or o["half_twin"]]
        rnd.shuffle(tw)
        for o in tw[: (40 if ck.quick else 120)]:
            ts = {tup_of(o["tuple"])}
            for key in ("naive_twin", "half_twin"):
                for u in o[key]:
                    ts.add(tup_of(u))
            while len(ts) < 4:
                ts.add(tup_of(rnd.choice(obs)["tuple"]))
            jobs.append((sorted(ts), rnd.randrange(10 ** 6), nc))
    ck.extra["tuples_with_a_colliding_twin"] = sum(1 for nc, obs in allobs for o in obs if o["naive_twin"] or o["half_twin"])
    if not jobs:
        raise MachineryError("vacuity: TLC found no colliding twins")
    for job, viol in zip(jobs, pmap(_table, jobs, chunksize=1)):
        ck.impl += 1
        for sig, text, detail in viol:
            if sig["kind"] == "keys_drift":
                ck.note_drift(text)
            else:
                ck.violation(sig, text, detail)
    ck.evaluations = ck.impl
    ck.sample({"tuple": allobs[0][1][100]["tuple"], "merged": allobs[0][1][100]["merged"]})
    ck.sample({"table_groups": [list(t) for t in jobs[0][0]]})
    ck.assumptions += ["values are compared as strings (the property's reading); canonical ids are chosen with the same sort order as the merged keys so that both runs perform identical float arithmetic"]


def replay(ck, path):
    run(ck)
