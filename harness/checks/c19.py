"""C19 - estimator life cycle: fit depends on parameters and data, not on call history.

Specs: Lifecycle.tla (all call sequences over {fit(D1), fit(D2), predict(seed), pickle round
trip, clone}; TLC checks that the abstract model is determined by the last fit, that parameters
never change and that predict leaves the state unchanged) and LifeTrace.tla.
Binding A+B: every TLC behaviour of maximal length is executed on ThresholdOptimizer,
ExponentiatedGradient, GridSearch, CorrelationRemover and the adversarial classifier/regressor
for several configurations; after each action the harness records the return value of fit, the
constructor parameters reported by get_params, NotFittedError behaviour and a fingerprint of the
predictions on a fixed query set; TLC validates the recorded history against LifeTrace.tla, in
which the fingerprint of abstract model d must equal that of a FRESH estimator fitted on d.
"""
import hashlib
import json
import pickle

import numpy as np

from harness.core import pmap, MachineryError
from harness import red_common as RC

NCFG = {"TO": 3, "EG": 3, "GS": 2, "CR": 3, "ADVC": 2, "ADVR": 1}
CR_COLS = {1: ["s", "a", "b"], 2: ["a", "b", "s"]}        # CR config 2: DataFrame input, sensitive column by NAME, at another position in D2


def _datasets():
    rs = np.random.RandomState(3)
    out = {}
    for d, n in ((1, 16), (2, 22)):
        f = rs.randint(0, 2, n)
        g = np.array(["a", "b", "c"])[np.arange(n) % 3] if d == 2 else np.array(["a", "b"])[np.arange(n) % 2]
        y = (f ^ (rs.rand(n) < 0.25)).astype(int)
        y[:4] = [0, 1, 0, 1]; y[4:8] = [1, 0, 1, 0]
        X = np.column_stack([np.arange(n) % 5, f, rs.randn(n).round(2)]).astype(float)
        out[d] = {"X": X, "y": y, "g": g, "yc": (y + rs.randn(n) * 0.1).round(3), "gc": (np.arange(n) % 4) / 4 + 0.13}
    q = np.column_stack([np.arange(9) % 5, np.arange(9) % 2, np.linspace(-1, 1, 9)]).astype(float)
    # two query rows carry group "c", which occurs in D2 only: a model fitted on D1 must not know anything about it,
    # whatever the same object was fitted on before
    return out, q, np.array(["a", "b", "c", "b", "a", "c", "a", "b", "a"])


def make(kind, ci):
    import fairlearn.reductions as red
    from fairlearn.postprocessing import ThresholdOptimizer
    from fairlearn.preprocessing import CorrelationRemover
    from fairlearn.adversarial import AdversarialFairnessClassifier, AdversarialFairnessRegressor
    from sklearn.linear_model import LogisticRegression
    if kind == "TO":
        return [lambda: ThresholdOptimizer(estimator=LogisticRegression(), constraints="demographic_parity", grid_size=20, predict_method="predict_proba"),
                lambda: ThresholdOptimizer(estimator=LogisticRegression(), constraints="equalized_odds", objective="balanced_accuracy_score", flip=True, grid_size=15, predict_method="predict_proba"),
                lambda: ThresholdOptimizer(estimator=LogisticRegression(), constraints="true_positive_rate_parity", objective="accuracy_score", grid_size=7, predict_method="decision_function")][ci]()
    if kind == "EG":
        return [lambda: red.ExponentiatedGradient(RC.ExactLearner(), red.DemographicParity(difference_bound=0.05), max_iter=6, eps=0.1, nu=0.01),
                lambda: red.ExponentiatedGradient(RC.ExactLearner(), red.EqualizedOdds(ratio_bound=0.8), max_iter=5, eps=0.2, nu=1e-3, run_linprog_step=False),
                lambda: red.ExponentiatedGradient(RC.ExactLearner(), red.DemographicParity(), max_iter=5, eps=0.1)][ci]()          # nu=None
    if kind == "GS":
        return [lambda: red.GridSearch(RC.ExactLearner(), red.EqualizedOdds(), grid_size=5),
                lambda: red.GridSearch(RC.ExactLearner(), red.DemographicParity(ratio_bound=0.9), grid_size=4, constraint_weight=0.3, grid_limit=1.5)][ci]()
    if kind == "CR":
        return [lambda: CorrelationRemover(sensitive_feature_ids=[0], alpha=0.7), lambda: CorrelationRemover(sensitive_feature_ids=[2, 0]),
                lambda: CorrelationRemover(sensitive_feature_ids=["s"])][ci]()
    if kind == "ADVC":
        return [lambda: AdversarialFairnessClassifier(backend="torch", predictor_model=[3, "relu"], adversary_model=[2], predictor_optimizer="SGD", adversary_optimizer="SGD",
                                                      learning_rate=0.1, epochs=2, batch_size=4, random_state=7),
                lambda: AdversarialFairnessClassifier(backend="torch", predictor_model=[2], adversary_model=[], constraints="equalized_odds", learning_rate=0.01, epochs=1, batch_size=-1,
                                                      random_state=3, shuffle=True)][ci]()
    return AdversarialFairnessRegressor(backend="torch", predictor_model=[3, "sigmoid"], adversary_model=[2], predictor_optimizer="SGD", adversary_optimizer="SGD",
                                        learning_rate=0.05, epochs=2, batch_size=5, random_state=11)


def _named(X, d):
    import pandas as pd
    df = pd.DataFrame(np.asarray(X), columns=["s", "a", "b"])
    return df[CR_COLS[d]]


def _fit(kind, est, D, ci=0, d=1):
    if kind == "CR":
        return est.fit(_named(D["X"], d) if ci == 2 else D["X"])
    if kind == "ADVR":
        return est.fit(D["X"], D["yc"], sensitive_features=D["gc"])
    return est.fit(D["X"], D["y"], sensitive_features=D["g"])


def _fp(kind, est, q, qg, seed, ci=0, d=1):
    """fingerprint of the predictions on the fixed query set (raises NotFittedError when unfitted)"""
    if kind == "CR" and ci == 2:
        q = _named(q, d or 1)
    if kind == "TO":
        arr = [est.predict(q, sensitive_features=qg, random_state=seed), est._pmf_predict(q, sensitive_features=qg)]
    elif kind == "EG":
        arr = [est.predict(q, random_state=seed), est._pmf_predict(q)]
    elif kind == "CR":
        arr = [est.transform(q)]
    else:
        arr = [est.predict(q)]
    h = hashlib.sha1(b"".join(np.ascontiguousarray(np.asarray(a, dtype=float)).tobytes() for a in arr)).digest()
    return int.from_bytes(h[:3], "big")


def _param_diff(est, p0):
    out = []
    p1 = est.get_params(deep=False)
    for k, v in p0.items():
        w = p1.get(k, "<missing>")
        same = (w is v) or (type(w) is type(v) and not hasattr(v, "__dict__") and _eq(w, v))
        if not same:
            out.append(k)
    return out


def _eq(a, b):
    try:
        r = a == b
        return bool(r) if not hasattr(r, "all") else bool(r.all())
    except Exception:
        return False


def _ref(job):
    kind, ci = job
    from sklearn.exceptions import NotFittedError
    data, q, qg = _datasets()
    out = []
    try:
        for d in (1, 2):
            for s in (1, 2):
                est = make(kind, ci)
                _fit(kind, est, data[d], ci, d)
                out.append(_fp(kind, est, q, qg, s, ci, d))
        return out
    except Exception as e:
        return {"error": repr(e)}


def _run(job):
    kind, ci, hist, known = job
    from sklearn.base import clone
    from sklearn.exceptions import NotFittedError
    data, q, qg = _datasets()
    events, viol = [], []
    est = make(kind, ci)
    p0 = est.get_params(deep=False)
    detail = {"kind": kind, "config": ci, "history": hist}

    def params_ok(where):
        changed = _param_diff(est, p0)
        unknown = []
        for k in changed:
            sig = {"api": "get_params", "kind": "param_changed", "estimator": kind, "param": k}
            viol.append((sig, f"{kind}: constructor parameter {k!r} changed from {p0[k]!r} to {est.get_params(deep=False).get(k)!r} after {where}", detail))
            if not any(all(sig.get(a) == b for a, b in kf["match"].items()) for kf in known):
                unknown.append(k)
        return not unknown
    cur = None            # data set of the last fit (None after clone)
    for (name, arg) in hist:
        try:
            if name == "fit":
                ret = _fit(kind, est, data[arg], ci, arg)
                cur = arg
                events.append({"ev": "fit", "d": arg, "ret_self": ret is est, "params_ok": params_ok(f"fit(D{arg})")})
                if ret is not est:
                    viol.append(({"api": "fit", "kind": "return_value", "estimator": kind}, f"{kind}.fit returned {type(ret).__name__} instead of the estimator itself", detail))
            elif name == "predict":
                try:
                    a = _fp(kind, est, q, qg, arg, ci, cur)
                    b = _fp(kind, est, q, qg, arg, ci, cur)
                    events.append({"ev": "predict", "seed": arg, "fitted": True, "fp": a, "fp_repeat": b, "params_ok": params_ok("predict")})
                except NotFittedError:
                    events.append({"ev": "predict", "seed": arg, "fitted": False, "fp": 0, "fp_repeat": 0, "params_ok": params_ok("predict")})
            elif name == "pickle":
                pb = est.get_params(deep=False)          # the round trip must preserve the parameters as they are now
                est = pickle.loads(pickle.dumps(est))
                p1 = est.get_params(deep=False)
                ok = set(p1) == set(pb) and all(type(p1[k]) is type(pb[k]) for k in pb) and all(_eq(p1[k], pb[k]) for k in pb if not hasattr(pb[k], "__dict__"))
                ok0 = set(p1) == set(p0) and all(type(p1[k]) is type(p0[k]) for k in p0) and all(_eq(p1[k], p0[k]) for k in p0 if not hasattr(p0[k], "__dict__"))
                p0 = p1
                events.append({"ev": "pickle", "params_ok": ok})
            elif name == "clone":
                pb = est.get_params(deep=False)
                est = clone(est)
                p1 = est.get_params(deep=False)
                ok = set(p1) == set(pb) and all(type(p1[k]) is type(pb[k]) for k in pb) and all(_eq(p1[k], pb[k]) for k in pb if not hasattr(pb[k], "__dict__"))
                ok0 = set(p1) == set(p0) and all(type(p1[k]) is type(p0[k]) for k in p0) and all(_eq(p1[k], p0[k]) for k in p0 if not hasattr(p0[k], "__dict__"))
                p0 = p1
                cur = None
                try:
                    _fp(kind, est, q, qg, 1, ci, 1)
                    fitted = True
                except NotFittedError:
                    fitted = False
                except Exception:
                    fitted = False
                events.append({"ev": "clone", "params_ok": ok, "fitted": fitted})
        except Exception as e:
            viol.append(({"api": name, "kind": "exception", "estimator": kind, "exc": type(e).__name__, "after_fit": any(h[0] == "fit" for h in hist[:len(events)])},
                         f"{kind}: {name}({arg}) raised {e!r} after history {hist[:len(events)]}", detail))
            return {"kind": kind, "ci": ci, "hist": hist, "events": None, "viol": viol}
    return {"kind": kind, "ci": ci, "hist": hist, "events": events, "viol": viol}


def run(ck):
    L = 3 if ck.quick else 4
    ck.rule = (f"Lifecycle.tla: every call sequence of length {L} over fit(D1), fit(D2), predict(seed 1/2), pickle, clone per estimator kind is one TLC behaviour; each is executed for "
               "2-3 configurations per kind (11 configurations) and the recorded history validated by TLC (LifeTrace.tla) against fingerprints of fresh estimators")
    r = ck.tlc("Lifecycle", f"CONSTANTS MaxLen = {L} Emit = TRUE\nSPECIFICATION Spec\nINVARIANT HistoryIndependent\nINVARIANT ParamsFixed\nPROPERTY ParamsNeverChange\nPROPERTY PredictPure\n"
               "INVARIANT EmitInv\nCHECK_DEADLOCK FALSE\n", f"all call sequences of length <= {L}", workers=1, timeout=1500)
    beh = r.emitted
    ck.exhaustive = True
    refs = {}
    rjobs = [(k, ci) for k in NCFG for ci in range(NCFG[k])]
    for job, ref in zip(rjobs, pmap(_ref, rjobs, chunksize=1)):
        if isinstance(ref, dict):
            raise MachineryError(f"reference fit failed for {job}: {ref['error']}")
        refs[job] = ref
    jobs = []
    for bi, b in enumerate(beh):
        for ci in range(NCFG[b["kind"]]):
            # quick: every behaviour with configuration 0 and one further configuration (rotating), and EVERY configuration for the
            # behaviours with two fits (the refit histories are the core of the property); thorough: all
            nfit = sum(1 for h in b["hist"] if h[0] == "fit")
            if ck.quick and nfit < 2 and not (ci == 0 or ci == bi % NCFG[b["kind"]]):
                continue
            jobs.append((b["kind"], ci, [tuple(h) for h in b["hist"]], ck.known))
    recs = pmap(_run, jobs, chunksize=2)
    traces, owners = [], []
    for rec in recs:
        ck.impl += 1
        ck.nt(json.dumps([rec["kind"], rec["ci"], rec["hist"]]))
        for sig, text, detail in rec["viol"]:
            ck.violation(sig, text, detail)
        if rec["events"] is not None:
            traces.append({"kind": rec["kind"], "ref": refs[(rec["kind"], rec["ci"])], "events": rec["events"]})
            owners.append(rec)
    acc, diags = ck.validate_traces("LifeTrace", traces, "CONSTANTS MaxLen = 9 Emit = FALSE\nSPECIFICATION TSpec\nCHECK_DEADLOCK FALSE\n", "estimator histories", shards=8)
    for i, ok in enumerate(acc):
        if not ok:
            dg = diags.get(i, {})
            ne = dg.get("next_event") or {}
            o = owners[i]
            why = "fit_not_self" if ne.get("ev") == "fit" and not ne.get("ret_self", True) else ("params" if ne.get("params_ok") is False else
                  ("fitted_state" if ne.get("ev") in ("predict", "clone") and "fitted" in ne and ne.get("fp") == ne.get("fp_repeat") and ne.get("ev") == "clone" else "model_depends_on_history"))
            if ne.get("ev") == "predict" and ne.get("fitted") and ne.get("fp") != ne.get("fp_repeat"):
                why = "predict_not_repeatable"
            ck.violation({"api": "lifecycle", "kind": "trace_rejected", "estimator": o["kind"], "why": why, "at": ne.get("ev"), "config": f"{o['kind']}{o['ci']}"},
                         f"{o['kind']} (config {o['ci']}): history {o['hist']} rejected by LifeTrace.tla at event {ne} ({why})", {"history": o["hist"], "events": o["events"], "ref": traces[i]["ref"]})
    ck.evaluations = ck.impl
    ck.sample({"behaviour": beh[len(beh) // 2]})
    if traces:
        ck.sample({"kind": traces[0]["kind"], "ref": traces[0]["ref"], "events": traces[0]["events"]})
    ck.extra.update({"behaviours": len(beh), "executions": len(jobs), "traces_validated_by_tlc": len(traces), "traces_accepted": sum(acc)})
    ck.assumptions += ["model equality is judged through a fingerprint (sha1 of predictions / pmf / transform output on a fixed query set, fixed seeds): both sides run the same arithmetic, so equality is exact",
                       "adversarial estimators: integer random_state, warm_start=False, list architectures; pickle not exercised for them (as in the property)"]


def replay(ck, path):
    run(ck)
