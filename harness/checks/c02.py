"""C02 - MetricFrame aggregates are the documented functions of by_group and overall.

Spec: spec/Frame.tla (GroupMin/Max, Difference, Ratio x {between_groups,to_overall}, laws).
Binding A: every TLC state -> real MetricFrame (dict and callable form, weighted / unweighted,
with / without a control feature, canonical and shuffled row order); every aggregate for both
methods and both `errors` settings is compared with the specification's exact rational, and
the property's inequalities are evaluated on the code's own floats.
"""
import json

from harness.core import R, close, pmap, MachineryError
from harness.frame_common import (METRICS, SIGNED, GLABEL, CLABEL, frame_cfg, metric_fns, order_for, concrete, lookup, isnan)

METHODS = ["between_groups", "to_overall"]


def _cmp(out, sig, got, exp, what, detail):
    if not close(got, R(exp)):
        out.append((sig, f"{what}: code {got!r} vs specification {exp}", detail))


def _one(args):
    case, seed = args
    import fairlearn.metrics as fm
    fns = metric_fns()
    out = []
    nev = 0
    rows = case["rows"]
    S = len(case["strata"])
    strata = [c + 1 for c, b in enumerate(case["strata"]) if b]
    groups = [g + 1 for g, b in enumerate(case["groups"]) if b]
    control = S > 1
    rnd_m = METRICS[hash((seed, json.dumps(rows))) % len(METRICS)]
    for which in (0, 1) if len(rows) > 1 else (0,):
        d = concrete(rows, order_for(rows, seed, which))
        for weighted in (True, False):
            exp_all = case["w" if weighted else "u"]
            for form in ("dict", "callable", "callable_int"):
                if form == "callable_int" and (which != 0 or not weighted):
                    continue
                names = METRICS if form == "dict" else ([rnd_m] if form == "callable" else ["tpc"])      # callable_int: an all-integer frame
                if form == "dict":
                    metrics = {m: fns[m] for m in names}
                    sp = {m: {"sample_weight": d["w"]} for m in names} if weighted else None
                else:
                    metrics = fns[names[0]]
                    sp = {"sample_weight": d["w"]} if weighted else None
                kw = dict(metrics=metrics, y_true=d["y"], y_pred=d["p"], sensitive_features=d["g"], sample_params=sp)
                if control:
                    kw["control_features"] = d["c"]
                detail = {"form": form, "weighted": weighted, "data": d}
                base_sig = {"form": form, "control": control}
                try:
                    mf = fm.MetricFrame(**kw)
                except Exception as e:
                    out.append(({"api": "MetricFrame", "kind": "exception", **base_sig}, f"MetricFrame raised {e!r}", detail))
                    continue
                nev += 1
                cf = form != "dict"
                for m in names:
                    exp = exp_all[METRICS.index(m)]
                    for c in strata:
                        cv = CLABEL[c] if control else None
                        # overall and cells (needed to interpret the aggregates)
                        try:
                            _cmp(out, {"api": "overall", **base_sig}, lookup(mf.overall, m, cv, None, cf), exp["overall"][c - 1], f"overall[{m},{cv}]", detail)
                            cells = []
                            for g in groups:
                                got = lookup(mf.by_group, m, cv, GLABEL[g], cf)
                                cells.append(got)
                                _cmp(out, {"api": "by_group", **base_sig}, got, exp["cells"][c - 1][g - 1], f"by_group[{m},{cv},{GLABEL[g]}]", detail)
                            for errors in ("raise", "coerce"):
                                gmin = lookup(mf.group_min(errors=errors), m, cv, None, cf)
                                gmax = lookup(mf.group_max(errors=errors), m, cv, None, cf)
                                _cmp(out, {"api": "group_min", "errors": errors, **base_sig}, gmin, exp["gmin"][c - 1], f"group_min[{m},{cv}]", detail)
                                _cmp(out, {"api": "group_max", "errors": errors, **base_sig}, gmax, exp["gmax"][c - 1], f"group_max[{m},{cv}]", detail)
                                vals = {}
                                for method, key in (("between_groups", "b"), ("to_overall", "o")):
                                    dv = lookup(mf.difference(method=method, errors=errors), m, cv, None, cf)
                                    rv = lookup(mf.ratio(method=method, errors=errors), m, cv, None, cf)
                                    vals[("d", key)] = dv
                                    vals[("r", key)] = rv
                                    _cmp(out, {"api": "difference", "method": method, "errors": errors, **base_sig}, dv, exp["diff_" + key][c - 1],
                                         f"difference({method},{errors})[{m},{cv}]", detail)
                                    if not (m in SIGNED and exp["ratio_" + key][c - 1][1] == 0):      # signed metric with a zero denominator: not specified
                                        _cmp(out, {"api": "ratio", "method": method, "errors": errors, **base_sig}, rv, exp["ratio_" + key][c - 1],
                                             f"ratio({method},{errors})[{m},{cv}]", detail)
                                    nev += 2
                                # the "hence" clauses on the code's own floats
                                eps = 1e-12
                                db, do = vals[("d", "b")], vals[("d", "o")]
                                bad = []
                                if isnan(db) or isnan(do):
                                    continue          # a metric undefined on every group of the stratum: nothing to compare
                                if not (db >= -eps and do >= -eps):
                                    bad.append("difference < 0")
                                for k in ("b", "o"):
                                    rv = vals[("r", k)]
                                    if m not in SIGNED and not isnan(rv) and not (-eps <= rv <= 1 + eps):
                                        bad.append("ratio outside [0,1]")
                                if not (db <= 2 * do + eps):
                                    bad.append("between_groups difference > 2 * to_overall difference")
                                if m in ("sel", "acc", "zol", "smean") and not (do <= db + eps):
                                    bad.append("to_overall difference > between_groups difference for a weighted-mean metric")
                                if abs((gmax - gmin) - db) > 1e-12:
                                    bad.append("difference(between_groups) != group_max - group_min")
                                for b in bad:
                                    out.append(({"api": "inequality", "which": b, **base_sig}, f"{b} for {m} (errors={errors})", detail))
                        except Exception as e:
                            out.append(({"api": "aggregate", "kind": "exception", "exc": type(e).__name__, **base_sig},
                                        f"aggregate access raised {e!r} for {m}", detail))
    # ---- the same rows as TWO SENSITIVE features and no control feature: aggregates over the whole product (NaN cells skipped)
    if control and len(rows) > 1:
        import pandas as pd
        d = concrete(rows, order_for(rows, seed, 1))
        sf2 = pd.DataFrame({"sfa": d["c"], "sfb": d["g"]})
        for weighted in (True, False):
            exp_all = case["w" if weighted else "u"]
            sp = {m: {"sample_weight": d["w"]} for m in METRICS} if weighted else None
            detail = {"form": "dict", "weighted": weighted, "two_sensitive_features": True, "data": d}
            sig2 = {"form": "dict", "control": False, "two_sf": True}
            try:
                mf = fm.MetricFrame(metrics={m: fns[m] for m in METRICS}, y_true=d["y"], y_pred=d["p"], sensitive_features=sf2, sample_params=sp)
                nev += 1
                for m in METRICS:
                    e2 = exp_all[METRICS.index(m)]["two_sf"]
                    _cmp(out, {"api": "overall", **sig2}, mf.overall[m], e2["overall"], f"overall[{m}] (two sensitive features)", detail)
                    for errors in ("raise", "coerce"):
                        _cmp(out, {"api": "group_min", "errors": errors, **sig2}, mf.group_min(errors=errors)[m], e2["gmin"], f"group_min[{m}] (two sensitive features)", detail)
                        _cmp(out, {"api": "group_max", "errors": errors, **sig2}, mf.group_max(errors=errors)[m], e2["gmax"], f"group_max[{m}] (two sensitive features)", detail)
                        for method, key in (("between_groups", "b"), ("to_overall", "o")):
                            _cmp(out, {"api": "difference", "method": method, "errors": errors, **sig2}, mf.difference(method=method, errors=errors)[m], e2["diff_" + key],
                                 f"difference({method})[{m}] (two sensitive features)", detail)
                            if not (m in SIGNED and e2["ratio_" + key][1] == 0):
                                _cmp(out, {"api": "ratio", "method": method, "errors": errors, **sig2}, mf.ratio(method=method, errors=errors)[m], e2["ratio_" + key],
                                     f"ratio({method})[{m}] (two sensitive features)", detail)
            except Exception as e:
                out.append(({"api": "MetricFrame", "kind": "exception", **sig2}, f"MetricFrame(two sensitive features) raised {e!r}", detail))
    flags = (bool(case["empty_cell"]), bool(case["singleton"]),
             any(not x[1] for k in ("w", "u") for pm in case[k] for x in [pm["ratio_b"][0]]))
    return out, nev, flags


def configs(ck):
    if ck.quick:
        return [(3, 3, 1, 1), (3, 2, 2, 1), (3, 2, 1, 2)]      # (N, G, W, S)
    return [(4, 3, 1, 1), (3, 3, 2, 1), (4, 2, 1, 2), (3, 2, 2, 2), (3, 4, 1, 1)]


def run(ck):
    ck.rule = ("every multiset of rows (group, stratum, y, pred, weight) up to N is one TLC state; replayed as MetricFrame with dict and "
               "callable metrics, weighted/unweighted, canonical+shuffled order; all aggregates x methods x errors compared with exact rationals")
    cases = []
    for (N, G, W, S) in configs(ck):
        ck.tlc("Frame", frame_cfg(N + (0 if ck.quick else 0), G, W, S, False), f"laws N<={N} G={G} W={W} S={S}")
        cases += ck.tlc_shards("Frame", lambda k: frame_cfg(N, G, W, S, True, 12, k, laws=False), 12, f"emit N<={N} G={G} W={W} S={S}")
    ck.exhaustive = True
    if not ck.quick:
        for (G, W, S) in ((4, 3, 1), (3, 2, 3)):
            sim = ck.tlc("Frame", frame_cfg(10, G, W, S, True, sim=True, laws=True), f"simulate N<=10 G={G} W={W} S={S}", workers=1,
                         simulate="num=250", depth=10)
            cases += sim.emitted
    replay_cases(ck, cases)
    from harness import extras
    extras.frame_calls(ck)       # specification growth (refinement tier only): call protocol of the aggregate methods
    ck.assumptions += ["float64 vs exact rationals at 1e-9 relative; NaN <-> Undef",
                       "metrics replayed: selection_rate, TPR/FPR/FNR/TNR, accuracy, precision(zero_division=0), zero_one_loss"]


def replay_cases(ck, cases):
    res = pmap(_one, [(c, ck.seed) for c in cases])
    ne = ns = nz = 0
    for c, (viol, nev, flags) in zip(cases, res):
        ck.impl += 1
        ck.evaluations += nev
        ck.nt(json.dumps(c["rows"]))
        ne += flags[0]; ns += flags[1]; nz += flags[2]
        for sig, text, detail in viol:
            ck.violation(sig, text, {"rows": c["rows"], **detail})
    ck.sample({"rows": cases[len(cases) // 2]["rows"], "u_sel": cases[len(cases) // 2]["u"][0]})
    ck.extra.update({"states_with_empty_cell": ne, "states_with_singleton_group": ns, "states_with_undefined_ratio": nz})
    if ne == 0 or ns == 0 or nz == 0:
        raise MachineryError(f"vacuity: empty cells {ne}, singleton groups {ns}, zero-denominator ratios {nz}")


def replay(ck, path):
    doc = json.load(open(path))
    rows = [c["rows"] for c in doc["cases"] if c]
    N = max(len(r) for r in rows); G = max(x[0] for r in rows for x in r); W = max(x[4] for r in rows for x in r)
    S = max(x[1] for r in rows for x in r)
    want = {json.dumps(sorted(r)) for r in rows}
    allc = ck.tlc_shards("Frame", lambda k: frame_cfg(N, max(G, 2), W, S, True, 12, k, laws=False), 12, "emit for replay")
    cases = [c for c in allc if json.dumps(sorted(c["rows"])) in want]
    replay_cases(ck, cases or allc[:20])
