"""C12 - rows are matched by position, not by container type, index label or row order.

Spec: spec/Present.tla - the product of presentations (container kind x index-label scheme per
argument); positional meaning Abs is independent of the presentation; the WRONG meaning
(alignment on index labels) is also specified and marks a presentation *discriminating* when it
would change the data (vacuity guard: default-index containers never discriminate).
Binding A: every TLC-enumerated presentation (sampled in quick, full product in thorough) is
applied to TLC-emitted datasets with 8 rows and pushed through MetricFrame, the fairness
metrics, the moments (load_data / gamma / signed_weights), ExponentiatedGradient, GridSearch and
ThresholdOptimizer (fit + _pmf_predict); the result must equal the canonical (list) run.
Row permutations and group-label bijections are applied on top.
"""
import json
import random

import numpy as np

from harness.core import pmap, MachineryError
from harness import red_common as RC
from harness import thr_common as T
from harness.frame_common import frame_cfg

NROWS = 8


def cfg(nargs, emit=True):
    return (f"CONSTANTS NArgs = {nargs} NRows = {NROWS} Emit = {'TRUE' if emit else 'FALSE'}\nSPECIFICATION Spec\nINVARIANT AbsInvariant\n"
            "INVARIANT DefaultNeverDiscriminates\nINVARIANT NonDefaultDiscriminates\nINVARIANT EmitInv\nCHECK_DEADLOCK FALSE\n")


def wrap(values, pres, labels, name="c", two_d=False):
    """materialise one argument under a presentation (kind, scheme)"""
    import pandas as pd
    kind, scheme = pres
    idx = [f"r{l}" for l in labels] if scheme == "str" else list(labels)
    if two_d:      # X: ndarray or DataFrame only
        arr = np.asarray(values, dtype=float)
        if kind in ("list", "ndarray"):
            return arr
        return pd.DataFrame(arr, index=idx if scheme != "none" else None, columns=[f"x{j}" for j in range(arr.shape[1])])
    if kind == "list":
        return list(values)
    if kind == "ndarray":
        return np.array(values)
    if kind == "series":
        return pd.Series(list(values), index=idx, name=name)
    return pd.DataFrame({name: list(values)}, index=idx)


def _bygroup(mf):
    return {k: (None if v != v else float(v)) for k, v in mf.by_group.items()}


def _close(a, b):
    if a is None or b is None:
        return a is None and b is None
    return abs(a - b) <= 1e-12


def _metric(args):
    """MetricFrame + fairness metrics under one presentation"""
    ds, ob, seed = args
    import fairlearn.metrics as fm
    out = []
    pres, labels = ob["pres"], ob["labels"]
    g, c, y, p, w = ds["g"], ds["c"], ds["y"], ds["p"], ds["w"]
    detail = {"pres": pres, "data": ds}
    sig0 = {"disc": bool(ob["disc"])}
    try:
        ref = fm.MetricFrame(metrics={"sel": fm.selection_rate, "tpr": fm.true_positive_rate}, y_true=y, y_pred=p, sensitive_features=g, control_features=c,
                             sample_params={"sel": {"sample_weight": w}, "tpr": {"sample_weight": w}})
        ref_dp = fm.demographic_parity_difference(y, p, sensitive_features=g, sample_weight=w)
        ref_eo = fm.equalized_odds_ratio(y, p, sensitive_features=g, sample_weight=w, method="to_overall")
    except Exception as e:
        raise MachineryError(f"canonical MetricFrame run failed: {e!r}")
    A = [wrap(y, pres[0], labels[0], "yt"), wrap(p, pres[1], labels[1], "yp"), wrap(g, pres[2], labels[2], "sf"), wrap(w, pres[3], labels[3], "sw")]
    cf = wrap(c, pres[(2 + 1) % 4], labels[(2 + 1) % 4], "cf")
    if pres[2][0] in ("list", "ndarray") and pres[0][0] == "ndarray":
        A[2] = {"sf": A[2]}                       # features as a dict of arrays (accepted by MetricFrame and the fairness metrics)
        cf = {"cf": list(c)} if not isinstance(cf, dict) and pres[3][0] == "list" else cf
    try:
        mf = fm.MetricFrame(metrics={"sel": fm.selection_rate, "tpr": fm.true_positive_rate}, y_true=A[0], y_pred=A[1], sensitive_features=A[2], control_features=cf,
                            sample_params={"sel": {"sample_weight": A[3]}, "tpr": {"sample_weight": A[3]}})
        for col in ("sel", "tpr"):
            a = {k: (None if v != v else float(v)) for k, v in mf.by_group[col].items()}
            b = {k: (None if v != v else float(v)) for k, v in ref.by_group[col].items()}
            if set(a) != set(b) or any(not _close(a[k], b[k]) for k in b):
                out.append(({"api": "MetricFrame.by_group", "kind": "differs", **sig0}, f"by_group[{col}] {a} != canonical {b}", detail))
            a = {k: float(v) for k, v in mf.overall[col].items()}
            b = {k: float(v) for k, v in ref.overall[col].items()}
            if a.keys() != b.keys() or any(not _close(a[k], b[k]) for k in b):
                out.append(({"api": "MetricFrame.overall", "kind": "differs", **sig0}, f"overall[{col}] {a} != canonical {b}", detail))
        d1, d2 = mf.difference(method="to_overall"), ref.difference(method="to_overall")
        if not np.allclose(d1.values, d2.values, atol=1e-12, equal_nan=True):
            out.append(({"api": "MetricFrame.difference", "kind": "differs", **sig0}, "difference(to_overall) differs from the canonical run", detail))
    except Exception as e:
        out.append(({"api": "MetricFrame", "kind": "exception", "exc": type(e).__name__, "arg_kinds": "/".join(p_[0] for p_ in pres), **sig0}, f"MetricFrame raised {e!r}", detail))
    try:
        dp = fm.demographic_parity_difference(A[0], A[1], sensitive_features=A[2], sample_weight=A[3])
        eo = fm.equalized_odds_ratio(A[0], A[1], sensitive_features=A[2], sample_weight=A[3], method="to_overall")
        if not (_close(float(dp), float(ref_dp)) and (eo != eo and ref_eo != ref_eo or _close(float(eo), float(ref_eo)))):
            out.append(({"api": "fairness_metric", "kind": "differs", **sig0}, f"dp_difference {dp} vs {ref_dp}; eo_ratio {eo} vs {ref_eo}", detail))
    except Exception as e:
        out.append(({"api": "fairness_metric", "kind": "exception", "exc": type(e).__name__, **sig0}, f"raised {e!r}", detail))
    return out


def _perm_bij(args):
    """joint row permutations and group-label bijections (metrics)"""
    ds, seed = args
    import pandas as pd
    import fairlearn.metrics as fm
    out = []
    rnd = random.Random(seed)
    g, c, y, p, w = ds["g"], ds["c"], ds["y"], ds["p"], ds["w"]
    n = len(y)
    fns = {"sel": fm.selection_rate, "tpr": fm.true_positive_rate}
    sp = lambda ww: {"sel": {"sample_weight": ww}, "tpr": {"sample_weight": ww}}
    ref = fm.MetricFrame(metrics=fns, y_true=y, y_pred=p, sensitive_features=g, control_features=c, sample_params=sp(w))
    for _ in range(4):
        perm = list(range(n)); rnd.shuffle(perm)
        P = lambda v: [v[i] for i in perm]
        # containers carrying the ORIGINAL labels after the permutation (a label-aligning implementation would undo the permutation)
        mf = fm.MetricFrame(metrics=fns, y_true=pd.Series(P(y), index=perm), y_pred=np.array(P(p)), sensitive_features=pd.Series(P(g), index=list(range(n))),
                            control_features=P(c), sample_params=sp(pd.Series(P(w), index=perm)))
        for col in fns:
            a = {k: (None if v != v else float(v)) for k, v in mf.by_group[col].items()}
            b = {k: (None if v != v else float(v)) for k, v in ref.by_group[col].items()}
            if set(a) != set(b) or any(not _close(a[k], b[k]) for k in b):
                out.append(({"api": "MetricFrame", "kind": "permutation"}, f"by_group[{col}] changed under a joint row permutation: {a} vs {b}", {"data": ds, "perm": perm}))
        for fn in (fm.demographic_parity_ratio, fm.equal_opportunity_difference):
            a = fn(P(y), P(p), sensitive_features=P(g), sample_weight=P(w)); b = fn(y, p, sensitive_features=g, sample_weight=w)
            if not (a != a and b != b or _close(float(a), float(b))):
                out.append(({"api": fn.__name__, "kind": "permutation"}, f"{a} vs {b}", {"data": ds, "perm": perm}))
    labs = sorted(set(g))
    bij = dict(zip(labs, [f"Z{len(labs) - i}" for i in range(len(labs))]))        # order-reversing renaming
    mf = fm.MetricFrame(metrics=fns, y_true=y, y_pred=p, sensitive_features=[bij[x] for x in g], control_features=c, sample_params=sp(w))
    for col in fns:
        a = {k: (None if v != v else float(v)) for k, v in mf.by_group[col].items()}
        b = {(k[0], bij[k[1]]): (None if v != v else float(v)) for k, v in ref.by_group[col].items()}
        if set(a) != set(b) or any(not _close(a[k], b[k]) for k in b):
            out.append(({"api": "MetricFrame", "kind": "bijection"}, f"renaming the groups did more than rename the index: {a} vs {b}", {"data": ds, "bij": bij}))
    return out


def _estimators(args):
    """moments + EG + GridSearch + ThresholdOptimizer under one presentation of (X, y, sensitive_features)"""
    ds, ob, seed, which = args
    import pandas as pd
    import fairlearn.reductions as red
    from fairlearn.postprocessing import ThresholdOptimizer
    out = []
    pres, labels = ob["pres"], ob["labels"]
    g, y, f = ds["g"], ds["y"], ds["f"]
    n = len(y)
    Xl = [[j, f[j]] for j in range(n)]
    scores = [[((j * 5) % 8) / 7.0] for j in range(n)]
    detail = {"pres": pres, "data": ds}
    sig0 = {"disc": bool(ob["disc"])}
    X = wrap(Xl, pres[0], labels[0], two_d=True)
    S = wrap(scores, pres[0], labels[0], two_d=True)
    Y = wrap(y, pres[1], labels[1], "label")
    G = wrap(g, pres[2], labels[2], "sf")
    Xc, Yc, Sc = np.array(Xl, dtype=float), np.array(y), np.array(scores, dtype=float)
    h = np.array([(j + f[j]) % 2 for j in range(n)], dtype=float)
    pred = lambda Z: h
    if "moments" in which:
        for cls in (red.DemographicParity, red.EqualizedOdds):
            try:
                m0 = cls(); m0.load_data(Xc, Yc, sensitive_features=g)
                m1 = cls(); m1.load_data(X, Y, sensitive_features=G)
                lam = pd.Series(np.linspace(0.2, 1.1, len(m0.index)), index=m0.index)
                if list(m0.index) != list(m1.index) or not np.array_equal(m0.gamma(pred).values, m1.gamma(pred).values) \
                        or not np.array_equal(np.asarray(m0.signed_weights(lam)), np.asarray(m1.signed_weights(lam))):
                    out.append(({"api": cls.__name__, "kind": "differs", **sig0}, f"{cls.__name__}: index/gamma/signed_weights differ from the canonical run", detail))
            except Exception as e:
                out.append(({"api": cls.__name__, "kind": "exception", "exc": type(e).__name__, "y_kind": pres[1][0], **sig0}, f"raised {e!r}", detail))
    if "eg" in which:
        try:
            e0 = red.ExponentiatedGradient(RC.ExactLearner(), red.DemographicParity(difference_bound=0.05), max_iter=6, eps=0.1); e0.fit(Xc, Yc, sensitive_features=g)
            e1 = red.ExponentiatedGradient(RC.ExactLearner(), red.DemographicParity(difference_bound=0.05), max_iter=6, eps=0.1); e1.fit(X, Y, sensitive_features=G)
            if not (np.array_equal(e0.weights_.values, e1.weights_.values) and [RC.hyp_of(q, 2) for q in e0.predictors_] == [RC.hyp_of(q, 2) for q in e1.predictors_]
                    and np.array_equal(e0._pmf_predict(Xc), e1._pmf_predict(X))):
                out.append(({"api": "ExponentiatedGradient", "kind": "differs", **sig0}, "EG model differs from the canonical run", detail))
        except Exception as e:
            out.append(({"api": "ExponentiatedGradient", "kind": "exception", "exc": type(e).__name__, "y_kind": pres[1][0], **sig0}, f"raised {e!r}", detail))
    if "gs" in which:
        try:
            g0 = red.GridSearch(RC.ExactLearner(), red.EqualizedOdds(), grid_size=6); g0.fit(Xc, Yc, sensitive_features=g)
            g1 = red.GridSearch(RC.ExactLearner(), red.EqualizedOdds(), grid_size=6); g1.fit(X, Y, sensitive_features=G)
            if not (np.array_equal(g0.lambda_vecs_.values, g1.lambda_vecs_.values) and g0.best_idx_ == g1.best_idx_
                    and [RC.hyp_of(q, 2) for q in g0.predictors_] == [RC.hyp_of(q, 2) for q in g1.predictors_] and np.array_equal(g0.predict(Xc), g1.predict(X))):
                out.append(({"api": "GridSearch", "kind": "differs", **sig0}, "GridSearch model differs from the canonical run", detail))
        except Exception as e:
            out.append(({"api": "GridSearch", "kind": "exception", "exc": type(e).__name__, "y_kind": pres[1][0], **sig0}, f"raised {e!r}", detail))
    if "to" in which:
        for cons in ("demographic_parity", "equalized_odds"):
            try:
                t0 = ThresholdOptimizer(estimator=T.Passthrough(), constraints=cons, prefit=True, predict_method="predict", grid_size=10); t0.fit(Sc, Yc, sensitive_features=g)
                t1 = ThresholdOptimizer(estimator=T.Passthrough(), constraints=cons, prefit=True, predict_method="predict", grid_size=10); t1.fit(S, Y, sensitive_features=G)
                p0 = t0._pmf_predict(Sc, sensitive_features=g); p1 = t1._pmf_predict(S, sensitive_features=G)
                if not (np.array_equal(p0, p1) and np.array_equal(t0.predict(Sc, sensitive_features=g, random_state=1), t1.predict(S, sensitive_features=G, random_state=1))):
                    out.append(({"api": "ThresholdOptimizer", "kind": "differs", "constraint": cons, **sig0}, f"{cons}: pmf/predict differ from the canonical run", detail))
            except Exception as e:
                out.append(({"api": "ThresholdOptimizer", "kind": "exception", "exc": type(e).__name__, "constraint": cons, "y_kind": pres[1][0], **sig0},
                            f"{cons}: raised {e!r}", detail))
    return out


def _datasets(ck):
    """8-row datasets taken from TLC simulation of Frame.tla (metrics) - estimators reuse them with a derived feature column"""
    sim = ck.tlc("Frame", frame_cfg(NROWS, 3, 2, 2, True, sim=True, laws=False), "simulate 8-row datasets (G=3 W=2 S=2)", workers=1, simulate="num=40", depth=NROWS, timeout=900)
    full = [c for c in sim.emitted if len(c["rows"]) == NROWS]
    out = []
    for c in full:
        rows = c["rows"]
        if len({r[0] for r in rows}) < 2 or len({r[2] for r in rows}) < 2:
            continue
        # estimators need both labels in every group for ThresholdOptimizer
        ok = all({r[2] for r in rows if r[0] == g} == {0, 1} for g in {r[0] for r in rows})
        out.append({"g": [f"grp{r[0]}" for r in rows], "c": [f"ctl{r[1]}" for r in rows], "y": [r[2] for r in rows], "p": [r[3] for r in rows],
                    "w": [r[4] for r in rows], "f": [(r[3] + r[4]) % 2 for r in rows], "to_ok": ok})
    return out


def run(ck):
    ck.rule = ("Present.tla: every assignment of (container kind, index-label scheme) to the arguments is one TLC state (12^4 for MetricFrame / fairness metrics, 12^3 for "
               "moments and estimators); seeded sample in quick, full product in thorough; applied to 8-row TLC-simulated datasets; plus joint row permutations and group-label bijections")
    p4 = ck.tlc("Present", cfg(4), "presentations of 4 arguments", workers=1, timeout=1500).emitted
    p3 = ck.tlc("Present", cfg(3), "presentations of 3 arguments", workers=1, timeout=900).emitted
    ck.exhaustive = not ck.quick
    dss = _datasets(ck)
    if len(dss) < 3:
        raise MachineryError("too few usable simulated datasets")
    rnd = ck.rng("c12")
    if ck.quick:
        p4s = rnd.sample(p4, 1500)
        p3s = rnd.sample(p3, 260)
    else:
        p4s, p3s = p4, p3
    mjobs = [(dss[i % len(dss)], ob, ck.seed) for i, ob in enumerate(p4s)]
    to_ds = [d for d in dss if d["to_ok"]] or dss
    ejobs = []
    for i, ob in enumerate(p3s):
        ejobs.append((to_ds[i % len(to_ds)], ob, ck.seed, ("moments", "to") + (("eg",) if i % 2 == 0 else ("gs",))))
    disc = 0
    for (ds, ob, _), viol in zip(mjobs, pmap(_metric, mjobs)):
        ck.impl += 1
        disc += bool(ob["disc"])
        ck.nt("m" + json.dumps(ob["pres"]))
        for sig, text, detail in viol:
            ck.violation(sig, text, detail)
    for (ds, ob, _, _w), viol in zip(ejobs, pmap(_estimators, ejobs, chunksize=2)):
        ck.impl += 1
        disc += bool(ob["disc"])
        ck.nt("e" + json.dumps(ob["pres"]))
        for sig, text, detail in viol:
            ck.violation(sig, text, detail)
    for ds, viol in zip(dss, pmap(_perm_bij, [(d, ck.seed + i) for i, d in enumerate(dss)])):
        ck.impl += 1
        for sig, text, detail in viol:
            ck.violation(sig, text, detail)
    ck.evaluations = ck.impl
    ck.sample({"presentation": p4s[0]["pres"], "labels": p4s[0]["labels"], "discriminating": p4s[0]["disc"]})
    ck.sample({"dataset": dss[0]})
    ck.extra.update({"discriminating_presentations_replayed": disc, "presentations_replayed": len(mjobs) + len(ejobs), "datasets": len(dss)})
    if disc == 0:
        raise MachineryError("vacuity: no discriminating presentation was replayed")
    ck.assumptions += ["X accepts ndarray / DataFrame only (list and Series presentations of X are mapped to ndarray / DataFrame)",
                       "dicts of pandas objects for features are outside the literal statement (\"dicts of arrays\"); see DESIGN 7 (obs)"]


def replay(ck, path):
    run(ck)
