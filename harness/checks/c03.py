"""C03 - named fairness metrics equal their first-principles definitions.

Spec: spec/Frame.tla (S = 1): DP / EOpp / EOdds x {difference, ratio} x method x agg and the
per-metric aggregates that the generated <metric>_{difference,ratio,group_min,group_max}
functions must return.  Binding A: every TLC state (all binary datasets with 1..G groups up to
the size bound, groups of size 1 and empty denominators included) is replayed into every public
function; functions without a first-principles definition in the spec are checked against the
equivalent MetricFrame call (last clause of the property).
"""
import functools
import json
import math

from harness.core import R, close, pmap, MachineryError
from harness.frame_common import METRICS, frame_cfg, order_for, concrete, isnan

METHODS = ["between_groups", "to_overall"]
AGGS = ["worst_case", "mean"]
GEN_DIFF_RATIO = {"true_positive_rate": "tpr", "true_negative_rate": "tnr", "false_positive_rate": "fpr",
                  "false_negative_rate": "fnr", "selection_rate": "sel", "accuracy_score": "acc", "zero_one_loss": "zol"}
GEN_MINMAX = {"accuracy_score_group_min": ("acc", "gmin"), "zero_one_loss_group_max": ("zol", "gmax"),
              "precision_score_group_min": ("prec", "gmin"), "recall_score_group_min": ("tpr", "gmin"),
              "mean_absolute_error_group_max": ("zol", "gmax"), "mean_squared_error_group_max": ("zol", "gmax")}
EQUIV_ONLY = {"balanced_accuracy_score_group_min": ("balanced_accuracy_score", "group_min"),
              "f1_score_group_min": ("f1_score", "group_min"), "roc_auc_score_group_min": ("roc_auc_score", "group_min"),
              "r2_score_group_min": ("r2_score", "group_min"), "log_loss_group_max": ("log_loss", "group_max")}


def _wsel(y_true, y_pred, *, mult, thr=0.5):
    """custom metric with a custom per-sample parameter and a bound parameter"""
    import numpy as np
    m = np.asarray(mult, dtype=float)
    return float(np.dot((np.asarray(y_pred) > thr), m) / m.sum())


def _same(a, b):
    if isnan(a) and isnan(b):
        return True
    try:
        return abs(float(a) - float(b)) <= 1e-12 * max(1.0, abs(float(b)))
    except Exception:
        return False


def _call(fn, *a, **k):
    try:
        return ("ok", fn(*a, **k))
    except Exception as e:
        return ("exc", type(e).__name__)


def _one(args):
    case, seed, combos = args
    import fairlearn.metrics as fm
    import sklearn.metrics as skm
    out = []
    nev = 0
    rows = case["rows"]
    for (which, weighted) in combos:
        if which and len(rows) < 2:
            which = 0
        d = concrete(rows, order_for(rows, seed, which))
        y, p, g = d["y"], d["p"], d["g"]
        kw = {"sample_weight": d["w"]} if weighted else {}
        named = case["named_w" if weighted else "named_u"]
        per = case["w" if weighted else "u"]
        detail = {"weighted": weighted, "data": d}

        def chk(fname, got, exp, extra=None, skip_undef=False):
            nonlocal nev
            nev += 1
            if skip_undef and exp[1] == 0:
                return
            if got[0] != "ok":
                out.append(({"fn": fname, "kind": "exception", "exc": got[1]}, f"{fname} raised {got[1]}", {**detail, "args": extra}))
            elif not close(got[1], R(exp)) or (hasattr(got[1], "ndim") and got[1].ndim != 0):
                out.append(({"fn": fname, "kind": "value", "weighted": weighted}, f"{fname}({extra}) = {got[1]!r}, first-principles value {exp}", {**detail, "args": extra}))

        for k, method in enumerate(METHODS):
            chk("demographic_parity_difference", _call(fm.demographic_parity_difference, y, p, sensitive_features=g, method=method, **kw), named["dp_diff"][k], method)
            chk("demographic_parity_ratio", _call(fm.demographic_parity_ratio, y, p, sensitive_features=g, method=method, **kw), named["dp_ratio"][k], method)
            chk("equal_opportunity_difference", _call(fm.equal_opportunity_difference, y, p, sensitive_features=g, method=method, **kw), named["eopp_diff"][k], method)
            chk("equal_opportunity_ratio", _call(fm.equal_opportunity_ratio, y, p, sensitive_features=g, method=method, **kw), named["eopp_ratio"][k], method)
            for a, agg in enumerate(AGGS):
                chk("equalized_odds_difference", _call(fm.equalized_odds_difference, y, p, sensitive_features=g, method=method, agg=agg, **kw),
                    named["eodds_diff"][k][a], (method, agg))
                chk("equalized_odds_ratio", _call(fm.equalized_odds_ratio, y, p, sensitive_features=g, method=method, agg=agg, **kw),
                    named["eodds_ratio"][k][a], (method, agg), skip_undef=True)
            for base, m in GEN_DIFF_RATIO.items():
                e = per[METRICS.index(m)]
                key = "b" if k == 0 else "o"
                chk(base + "_difference", _call(getattr(fm, base + "_difference"), y, p, sensitive_features=g, method=method, **kw), e["diff_" + key][0], method)
                chk(base + "_ratio", _call(getattr(fm, base + "_ratio"), y, p, sensitive_features=g, method=method, **kw), e["ratio_" + key][0], method)
        for fname, (m, key) in GEN_MINMAX.items():
            chk(fname, _call(getattr(fm, fname), y, p, sensitive_features=g, **kw), per[METRICS.index(m)][key][0])
        # a call WITHOUT `method` means between_groups - also right after calls that passed method="to_overall" to the same function object
        for base, m in GEN_DIFF_RATIO.items():
            e = per[METRICS.index(m)]
            chk(base + "_difference", _call(getattr(fm, base + "_difference"), y, p, sensitive_features=g, **kw), e["diff_b"][0], "default after to_overall")
            chk(base + "_ratio", _call(getattr(fm, base + "_ratio"), y, p, sensitive_features=g, **kw), e["ratio_b"][0], "default after to_overall")
        # default method must be between_groups
        chk("demographic_parity_difference", _call(fm.demographic_parity_difference, y, p, sensitive_features=g, **kw), named["dp_diff"][0], "default")
        chk("equalized_odds_ratio", _call(fm.equalized_odds_ratio, y, p, sensitive_features=g, **kw), named["eodds_ratio"][0][0], "default", skip_undef=True)
        # equivalence with the MetricFrame call (functions with no first-principles definition in the spec)
        sp = {"sample_weight": d["w"]} if weighted else None
        for fname, (skname, tr) in EQUIV_ONLY.items():
            nev += 1
            a = _call(getattr(fm, fname), y, p, sensitive_features=g, **kw)
            b = _call(lambda: getattr(fm.MetricFrame(metrics=getattr(skm, skname), y_true=y, y_pred=p, sensitive_features=g, sample_params=sp), tr)())
            if a[0] != b[0] or (a[0] == "ok" and not _same(a[1], b[1])):
                out.append(({"fn": fname, "kind": "equiv"}, f"{fname} = {a} but the equivalent MetricFrame call gives {b}", detail))
        # make_derived_metric: dispatcher split into sample params / transform params / bound params
        for tr in ("difference", "ratio", "group_min", "group_max"):
            nev += 1
            dm = fm.make_derived_metric(metric=_wsel, transform=tr, sample_param_names=["mult"])
            tp = {"method": "to_overall"} if tr in ("difference", "ratio") else {}
            a = _call(dm, y, p, sensitive_features=g, mult=d["w"], thr=0.25, **tp)
            bound = functools.partial(_wsel, thr=0.25)
            bound.__name__ = "wsel"
            b = _call(lambda: getattr(fm.MetricFrame(metrics=bound, y_true=y, y_pred=p, sensitive_features=g, sample_params={"mult": d["w"]}), tr)(**tp))
            # independent expectation: weighted selection rate aggregates from the spec (mult = weights, thr<1 => pred=1 selected)
            e = case["w"][METRICS.index("sel")]
            expkey = {"difference": "diff_o", "ratio": "ratio_o", "group_min": "gmin", "group_max": "gmax"}[tr]
            if a[0] != b[0] or (a[0] == "ok" and not _same(a[1], b[1])):
                out.append(({"fn": "make_derived_metric", "kind": "equiv", "transform": tr}, f"derived metric gives {a}, MetricFrame gives {b}", detail))
            elif a[0] == "ok" and not close(a[1], R(e[expkey][0])):
                out.append(({"fn": "make_derived_metric", "kind": "value", "transform": tr}, f"derived {tr} = {a[1]!r}, first-principles value {e[expkey][0]}", detail))
    return out, nev, (bool(case["singleton"]), any(per_m["ratio_b"][0][1] == 0 for per_m in case["u"]))


def configs(ck):
    if ck.quick:
        return [(4, 2, 1), (3, 3, 1), (2, 2, 2), (2, 4, 1)]     # (N, G, W); S = 1
    return [(5, 2, 1), (4, 3, 1), (3, 4, 1), (3, 2, 2)]


def run(ck):
    ck.rule = ("all binary datasets (group in 1..G, y, pred, weight in 1..W) up to N rows, one TLC state each; replayed into the 6 named metrics x "
               "method x agg, 26 generated metrics and make_derived_metric; (row order, weighted) combination rotates over states in quick, "
               "two combinations per state in thorough")
    cases = []
    for (N, G, W) in configs(ck):
        ck.tlc("Frame", frame_cfg(N, G, W, 1, False), f"laws N<={N} G={G} W={W}")
        cases += ck.tlc_shards("Frame", lambda k: frame_cfg(N, G, W, 1, True, 12, k, laws=False), 12, f"emit N<={N} G={G} W={W}")
    ck.exhaustive = True
    if not ck.quick:
        sim = ck.tlc("Frame", frame_cfg(10, 4, 3, 1, True, sim=True), "simulate N<=10 G=4 W=3", workers=1, simulate="num=150", depth=10)
        cases += sim.emitted
    replay_cases(ck, cases)
    from harness import extras2
    extras2.derived(ck)      # specification growth (refinement tier only): make_derived_metric argument routing
    ck.assumptions += ["equalized_odds_ratio is not compared when one of the two component ratios is undefined (0/0): the property does not fix the combination",
                       "roc_auc / r2 / f1 / balanced accuracy / log_loss variants: equivalence with the MetricFrame call only"]


def replay_cases(ck, cases):
    allc = [(0, True), (1, False), (0, False), (1, True)]
    jobs = []
    for i, c in enumerate(cases):
        combos = [allc[i % 4]] if (ck.quick or i % 3) else [allc[i % 4], allc[(i + 1) % 4]]
        jobs.append((c, ck.seed, combos))
    res = pmap(_one, jobs)
    ns = nz = 0
    for c, (viol, nev, flags) in zip(cases, res):
        ck.impl += 1
        ck.evaluations += nev
        ck.nt(json.dumps(c["rows"]))
        ns += flags[0]; nz += flags[1]
        for sig, text, detail in viol:
            ck.violation(sig, text, {"rows": c["rows"], **detail})
    mid = cases[len(cases) // 2]
    ck.sample({"rows": mid["rows"], "named_w": mid["named_w"]})
    ck.extra.update({"states_with_singleton_group": ns, "states_with_undefined_ratio": nz})
    if ns == 0 or nz == 0:
        raise MachineryError("vacuity: no singleton group / zero denominator explored")


def replay(ck, path):
    doc = json.load(open(path))
    rows = [c["rows"] for c in doc["cases"] if c]
    N = max(len(r) for r in rows); G = max(2, max(x[0] for r in rows for x in r)); W = max(x[4] for r in rows for x in r)
    want = {json.dumps(sorted(r)) for r in rows}
    allc = ck.tlc_shards("Frame", lambda k: frame_cfg(N, G, W, 1, True, 12, k, laws=False), 12, "emit for replay")
    ck.tier = "thorough"
    replay_cases(ck, [c for c in allc if json.dumps(sorted(c["rows"])) in want] or allc[:20])
