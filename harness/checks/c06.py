"""C06 - constraint moments measure exactly the documented parity violations.

Spec: spec/Moments.tla (events, index, Gamma, loss moments, cost-weighted error; laws PairedSigns,
EventMembership, Affine, RatioOne, SignSymmetry checked by TLC on every small dataset).
Binding A: load_data on every TLC state for the 5 parity moments x {difference bound, ratio
bounds 4/5 and 1/2} x with/without control feature; the index SET is compared (this is where
"no other constraints exist" is asserted), gamma for the zero / unit / soft predictors against
the exact affine form, bound(), BoundedGroupLoss, ErrorRate(costs), and for r = 1 the '+'
entries against the real MetricFrame.
"""
import json
import random
from fractions import Fraction

import numpy as np

from harness.core import R, close, pmap, MachineryError
from harness import mom_common as M


def _one(args):
    case, seed = args
    import pandas as pd
    import fairlearn.reductions as red
    import fairlearn.metrics as fm
    out = []
    nev = 0
    S = case["S"]
    hc = S > 1
    d = M.materialise(case, seed, 1)
    n = d["n"]
    order = d["order"]
    rnd = random.Random(hash((seed, json.dumps(case["rows"]))) & 0xFFFFFFFF)
    # soft predictions with denominators of 8 (exact in float) per position
    softs = [[Fraction(rnd.randint(0, 8), 8) for _ in range(n)] for _ in range(3)]
    hard = [rnd.randint(0, 1) for _ in range(n)]
    detail0 = {"data": {k: d[k] for k in ("g", "y", "c")}}
    for mo in case["moments"]:
        kind = mo["kind"]
        exp_keys = [M.index_key(e, hc) for e in mo["index"]]
        for rq, ratio in enumerate(case["ratios"]):
            pr = mo["per_ratio"][rq]
            sig0 = {"moment": kind, "control": hc, "ratio_is_one": ratio[0] == ratio[1]}
            detail = {**detail0, "moment": kind, "ratio": ratio}
            slack = M.SLACKS[(hash(json.dumps(case["rows"])) + rq + len(kind)) % len(M.SLACKS)]        # the configured slack rotates, 0.0 included
            detail["slack"] = slack
            try:
                m = M.make_moment(kind, ratio, slack)
                if (rq + n) % 2 == 0:
                    M.preload(m, hc)              # the same moment object was used on another data set before
                m = M.load(m, d, hc)
            except Exception as e:
                out.append(({"api": "load_data", "kind": "exception", **sig0}, f"{kind}.load_data raised {e!r}", detail))
                continue
            nev += 1
            got_keys = list(m.index)
            if len(got_keys) != len(set(got_keys)):
                out.append(({"api": "index", "kind": "duplicates", **sig0}, f"index has duplicate entries {got_keys}", detail))
            if set(got_keys) != set(exp_keys):
                extra = sorted(set(got_keys) - set(exp_keys))
                missing = sorted(set(exp_keys) - set(got_keys))
                if len(got_keys) == len(exp_keys) and False:
                    pass
                out.append(({"api": "index", "kind": "extra_constraints" if extra and not missing else ("missing_constraints" if missing and not extra else "different_constraints"),
                             "extra_has_nan_event": any("nan" in str(k[1]) for k in extra), **sig0},
                            f"{kind} index: unexpected {extra}, missing {missing} (events must be the conditioned label classes per stratum)", detail))
                continue
            # gamma: zero, unit, soft predictors (affine form from the spec's exact values)
            g0 = [R(x) for x in pr["gamma0"]]
            gu = [[R(x) for x in row] for row in pr["gamma_unit"]]   # canonical row i
            def expected(hpos):
                hcan = [Fraction(0)] * n
                for j in range(n):
                    hcan[order[j]] = Fraction(hpos[j])
                return [g0[k] + sum(hcan[i] * (gu[i][k] - g0[k]) for i in range(n)) for k in range(len(g0))]
            preds = [[0] * n] + [[1 if j == q else 0 for j in range(n)] for q in range(n)] + softs + [hard]
            for hpos in preds:
                nev += 1
                try:
                    got = m.gamma(M.vec_predictor([float(x) for x in hpos]))
                except Exception as e:
                    out.append(({"api": "gamma", "kind": "exception", **sig0}, f"gamma raised {e!r}", detail))
                    break
                exp = expected(hpos)
                for key, ev in zip(exp_keys, exp):
                    if not close(got[key], ev):
                        out.append(({"api": "gamma", "kind": "value", "sign": key[0], **sig0},
                                    f"{kind} r={ratio} gamma{key} = {got[key]!r}, specification {ev} for predictions {hpos}", detail))
                        break
            b = m.bound()
            if not all(abs(b[k] - slack) < 1e-15 for k in exp_keys) or len(b) != len(exp_keys):
                out.append(({"api": "bound", "kind": "value", "configured": slack, **sig0}, f"bound() = {dict(b)} but the configured slack is {slack}", detail))
            # r = 1: '+' entries coincide with MetricFrame by_group - overall of the matching rate
            if ratio[0] == ratio[1] and kind in ("DP", "TPR", "FPR", "ERP"):
                import sklearn.metrics as skm
                fn = {"DP": fm.selection_rate, "TPR": fm.true_positive_rate, "FPR": fm.false_positive_rate, "ERP": skm.zero_one_loss}[kind]
                gam = m.gamma(M.vec_predictor(hard))
                kw = {"control_features": d["c"]} if hc else {}
                # the rate of an (event, group) pair only exists in MetricFrame for rows of the label class: restrict
                lab = {"DP": None, "ERP": None, "TPR": 1, "FPR": 0}[kind]
                keep = [j for j in range(n) if lab is None or d["y"][j] == lab]
                if keep:
                    sub = lambda v: [v[j] for j in keep]
                    mf = fm.MetricFrame(metrics=fn, y_true=sub(d["y"]), y_pred=sub(hard), sensitive_features=sub(d["g"]),
                                        **({"control_features": sub(d["c"])} if hc else {}))
                    nev += 1
                    for key, ent in zip(exp_keys, mo["index"]):
                        if key[0] != "+":
                            continue
                        cv, gv = M.CLAB[ent[1]], M.GLAB[ent[3]]
                        bg = mf.by_group[(cv, gv)] if hc else mf.by_group[gv]
                        ov = mf.overall[cv] if hc else mf.overall
                        if abs(gam[key] - (bg - ov)) > 1e-12:
                            out.append(({"api": "gamma", "kind": "metricframe_mismatch", **sig0},
                                        f"{kind} gamma{key} = {gam[key]} but MetricFrame by_group - overall = {bg - ov}", detail))
    # ---- loss moments -------------------------------------------------------------------------
    if not hc:
        losses = {"square": (red.SquareLoss, True), "absolute": (red.AbsoluteLoss, True), "zero_one": (red.ZeroOneLoss, False)}
        for lname, (cls, has_range) in losses.items():
            for kv in range(2):
                ob = case["loss"][lname][kv]
                pred_can = [Fraction(v, 2) for v in ob["pred"]]                      # canonical order
                hpos = [float(pred_can[order[j]]) for j in range(n)]
                for rng_key, (lo, hi) in (("g01", (0, 1)), ("gwide", (-1, 2)), ("gmid", (0, 1.5))):      # clip ranges; predictions lie inside, on and beyond them
                    if not has_range and rng_key != "g01":
                        continue
                    try:
                        loss = cls(lo, hi) if has_range else cls()
                        bgl = red.BoundedGroupLoss(loss, upper_bound=0.25)
                        bgl.load_data(d["X"], np.array(d["y"], dtype=float), sensitive_features=d["g"])
                        got = bgl.gamma(M.vec_predictor(hpos))
                        nev += 1
                        present = [g for g in range(1, case["G"] + 1) if ob[rng_key][g - 1][1] != 0]
                        if set(got.index) != {M.GLAB[g] for g in present}:
                            out.append(({"api": "BoundedGroupLoss.gamma", "kind": "index"}, f"index {list(got.index)}", detail0))
                            continue
                        for g in present:
                            if not close(got[M.GLAB[g]], R(ob[rng_key][g - 1])):
                                out.append(({"api": "BoundedGroupLoss.gamma", "kind": "value", "loss": lname},
                                            f"{lname}[{lo},{hi}] group {M.GLAB[g]}: {got[M.GLAB[g]]!r} vs specification {ob[rng_key][g - 1]}", {**detail0, "pred": hpos}))
                        if not all(abs(x - 0.25) < 1e-15 for x in bgl.bound()):
                            out.append(({"api": "BoundedGroupLoss.bound", "kind": "value"}, f"bound {list(bgl.bound())}", detail0))
                    except Exception as e:
                        out.append(({"api": "BoundedGroupLoss", "kind": "exception"}, f"raised {e!r}", detail0))
        for eo in case["err"]:
            fp, fn_ = eo["costs"]
            try:
                er = red.ErrorRate(costs={"fp": fp, "fn": fn_})
                if (fp + n) % 2 == 0:
                    M.preload(er, False)
                er.load_data(d["X"], np.array(d["y"]), sensitive_features=d["g"])
                e0 = R(eo["e0"]); eu = [R(x) for x in eo["eunit"]]
                for hpos in [[0] * n, hard] + softs[:1]:
                    nev += 1
                    hcan = [Fraction(0)] * n
                    for j in range(n):
                        hcan[order[j]] = Fraction(hpos[j])
                    exp = e0 + sum(hcan[i] * (eu[i] - e0) for i in range(n))
                    got = er.gamma(M.vec_predictor([float(x) for x in hpos]))
                    if len(got) != 1 or not close(got.iloc[0], exp):
                        out.append(({"api": "ErrorRate.gamma", "kind": "value"}, f"costs {fp, fn_}: {got.iloc[0]!r} vs specification {exp}", {**detail0, "pred": [float(x) for x in hpos]}))
            except Exception as e:
                out.append(({"api": "ErrorRate", "kind": "exception"}, f"raised {e!r}", detail0))
    lacking = any(len(mo["index"]) < 2 * case["G"] * S * (2 if mo["kind"] == "EO" else 1) for mo in case["moments"])
    return out, nev, lacking


def configs(ck):
    # (N, G, S)
    return [(4, 2, 1), (3, 3, 1), (4, 2, 2), (3, 2, 3)] if ck.quick else [(5, 2, 1), (4, 3, 1), (3, 4, 1), (5, 2, 2), (4, 3, 2), (4, 2, 3)]


def produce(ck, law="LawsC06"):
    ck.rule = ("every multiset of (group, label, stratum) rows up to N is one TLC state; replayed (shuffled order, string labels) through load_data for "
               "5 parity moments x 3 bounds, gamma on zero/unit/soft/hard predictors, bound(), BoundedGroupLoss x 3 losses x 2 clip ranges, ErrorRate x 4 cost pairs, MetricFrame cross-check")
    cases = []
    for (N, G, S) in configs(ck):
        ck.tlc("Moments", M.cfg(N, G, S, 1, False, laws=(law,)), f"{law} N<={N} G={G} S={S}", timeout=3000)
        cases += ck.tlc_shards("Moments", lambda k: M.cfg(N, G, S, 1, True, laws=(), nshards=8, shard=k), 8, f"emit N<={N} G={G} S={S}", same_space=True, timeout=3000)
    ck.exhaustive = True
    if not ck.quick:
        cases += ck.tlc("Moments", M.cfg(9, 3, 2, 1, True, laws=(), sim=True), "simulate N<=9 G=3 S=2", workers=1, simulate="num=150", depth=9, timeout=3000).emitted
    return cases


def main(ck, fn, law):
    cases = [c for c in produce(ck, law) if len(c["rows"]) >= 2]      # the reductions need >= 2 rows (documented in DESIGN 7, obs)
    res = pmap(fn, [(c, ck.seed) for c in cases])
    lacking = 0
    for c, (viol, nev, flag) in zip(cases, res):
        ck.impl += 1
        ck.evaluations += nev
        ck.nt(json.dumps([c["S"], c["rows"]]))
        lacking += flag
        for sig, text, detail in viol:
            ck.violation(sig, text, {"rows": c["rows"], **detail})
    mid = cases[len(cases) // 2]
    ck.sample({"rows": mid["rows"], "moment": mid["moments"][0]["kind"], "index": mid["moments"][0]["index"], "gamma0": mid["moments"][0]["per_ratio"][1]["gamma0"]})
    ck.extra["states_where_some_event_group_pair_is_absent"] = lacking
    if lacking == 0:
        raise MachineryError("vacuity: every (event, group) pair occurred in every state")


def run(ck):
    main(ck, _one, "LawsC06")
    ck.assumptions += ["event names are compared literally ('all', 'label=1', 'control=<c>,<event>'): they are part of the public index",
                       "soft predictions are handled through the affine form (TLC proves affinity for 0/1 predictors)"]


def replay(ck, path):
    run(ck)
