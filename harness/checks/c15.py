"""C15 - CorrelationRemover output is uncorrelated with every sensitive column.

Spec: spec/CorrRem.tla - exact least-squares residual on small integer matrices with explicit
rank cases (constant / collinear sensitive columns), alpha blend, learned affine map on new rows;
TLC checks zero covariance, alpha = 0 identity and transform(train) = fit_transform(train) on
every enumerated matrix.  Binding A: every TLC state through fit_transform / fit+transform
(ndarray with positional ids, DataFrame with named ids, shuffled rows, permuted column layout,
alpha in {0, 1/2, 1}) against the exact rational output.  Extension to real matrices (the
property's actual quantifier): seeded float matrices with 1..4 sensitive columns incl. constant
and collinear ones - zero covariance, alpha formula, affinity of transform on new data.
"""
import json
import random

import numpy as np

from harness.core import R, close, pmap, MachineryError


def cfg(N, K, M, V, emit, nshards=1, shard=0, sim=False):
    inv = ["ZeroCov", "TransformIsFitTransform", "AlphaZeroIdentity", "EmitInv"]
    return (f"CONSTANTS N = {N} K = {K} M = {M} V = {V} Emit = {'TRUE' if emit else 'FALSE'} NShards = {nshards} Shard = {shard}\n"
            f"INIT Init\nNEXT {'NextSim' if sim else 'Next'}\n" + "".join(f"INVARIANT {i}\n" for i in inv) + "CHECK_DEADLOCK FALSE\n")


def _one(args):
    case, seed = args
    import pandas as pd
    from fairlearn.preprocessing import CorrelationRemover
    out = []
    K, M = case["K"], case["M"]
    rows = case["rows"]
    n = len(rows)
    rnd = random.Random(hash((seed, json.dumps(rows))) & 0xFFFFFFFF)
    order = list(range(n)); rnd.shuffle(order)
    layout = list(range(K + M)); rnd.shuffle(layout)            # layout[pos] = spec column (0-based; < K sensitive)
    pos_of = {c: p for p, c in enumerate(layout)}
    sens_ids = [pos_of[j] for j in range(K)]
    rnd.shuffle(sens_ids)
    other_pos = [p for p in range(K + M) if layout[p] >= K]      # remaining columns keep their order
    Xint = [[rows[i][layout[p]] for p in range(K + M)] for i in order]
    detail = {"X": Xint, "sensitive_ids": sens_ids}
    sig0 = {"K": K, "rank": case["rank"]}
    alphas = [0.0, 0.5, 1.0]
    for container in ("ndarray", "frame", "int_ndarray", "int_frame"):
        for a_i, alpha in enumerate(alphas):
            exp = case["blend"][a_i]
            if container.startswith("int") and alpha == 0.5:
                continue
            dt = int if container.startswith("int") else float          # integer-typed input is a legitimate real matrix too
            try:
                if container.endswith("ndarray"):
                    X = np.array(Xint, dtype=dt)
                    cr = CorrelationRemover(sensitive_feature_ids=list(sens_ids), alpha=alpha)
                else:
                    X = pd.DataFrame(np.array(Xint, dtype=dt), columns=[f"c{p}" for p in range(K + M)])
                    cr = CorrelationRemover(sensitive_feature_ids=[f"c{p}" for p in sens_ids], alpha=alpha)
                if container == "frame" and alpha == 1.0:
                    # the same estimator object was fitted before on a frame with the columns in another order
                    cr.fit(X[list(X.columns[::-1])] + 1.0)
                o1 = np.asarray(cr.fit_transform(X))
                o2 = np.asarray(CorrelationRemover(**cr.get_params()).fit(X).transform(X))
            except Exception as e:
                out.append(({"api": "fit_transform", "kind": "exception", "container": container, **sig0}, f"raised {e!r}", detail))
                continue
            if o1.shape != (n, M):
                out.append(({"api": "fit_transform", "kind": "shape", **sig0}, f"output shape {o1.shape}, expected {(n, M)} (sensitive columns dropped)", detail))
                continue
            if not np.array_equal(o1, o2):
                out.append(({"api": "transform", "kind": "fit_transform_mismatch", **sig0}, "fit(X).transform(X) != fit_transform(X)", detail))
            bad = False
            for r_i, i in enumerate(order):
                for c_i, p in enumerate(other_pos):
                    m = layout[p] - K
                    if not close(o1[r_i][c_i], R(exp[i][m])):
                        out.append(({"api": "fit_transform", "kind": "value", "alpha": alpha, "container": container, **sig0},
                                    f"alpha={alpha}: out[{r_i},{c_i}] = {o1[r_i][c_i]!r}, specification {exp[i][m]}", detail))
                        bad = True
                        break
                if bad:
                    break
            if alpha == 1.0 and not bad:
                # zero sample covariance directly on the code's output
                Xs = np.array(Xint, dtype=float)[:, [pos_of[j] for j in range(K)]]
                cov = (o1 - o1.mean(axis=0)).T @ (Xs - Xs.mean(axis=0))
                if np.abs(cov).max() > 1e-9:
                    out.append(({"api": "fit_transform", "kind": "covariance", **sig0}, f"covariance with a sensitive column {np.abs(cov).max()}", detail))
            # learned affine map on a new row
            if case["new_out"] and alpha == 1.0:
                new = [0.0] * (K + M)
                for j in range(K):
                    new[pos_of[j]] = float(case["new_row"]["s"][j])
                for m in range(M):
                    new[pos_of[K + m]] = float(case["new_row"]["z"][m])
                Xn = np.array([new]) if container.endswith("ndarray") else pd.DataFrame([new], columns=[f"c{p}" for p in range(K + M)])
                on = np.asarray(cr.transform(Xn))
                for c_i, p in enumerate(other_pos):
                    m = layout[p] - K
                    if not close(on[0][c_i], R(case["new_out"][m])):
                        out.append(({"api": "transform", "kind": "new_row", **sig0}, f"transform(new row)[{c_i}] = {on[0][c_i]!r}, specification {case['new_out'][m]}", detail))
    return out, case["rank"]


def _real(seed):
    """seeded real-valued matrices: the property's quantifier (direct checks on the code's output)"""
    import pandas as pd
    from fairlearn.preprocessing import CorrelationRemover
    out = []
    rs = np.random.RandomState(seed)
    n = rs.randint(2, 41)
    k = rs.randint(1, 5)
    m = rs.randint(1, 4)
    S = rs.randn(n, k) * rs.uniform(0.1, 10, size=k) + rs.uniform(-20, 20, size=k)
    mode = rs.randint(0, 4)
    if mode == 1:
        S[:, 0] = 3.25                                  # constant sensitive column
    elif mode == 2 and k >= 2:
        if rs.rand() < 0.5:
            S[:, 1] = 2 * S[:, 0] - 1                   # collinear sensitive columns
        else:                                           # complete one-hot encoding (columns sum to one) / repeated column
            cat = rs.randint(0, k, n); cat[:k] = np.arange(k)[:n] if n >= k else cat[:k]
            S = np.eye(k)[cat].astype(float)
    Zm = rs.randn(n, m) + S[:, :1] * rs.uniform(-2, 2) + rs.uniform(-5, 5, size=m)
    perm = rs.permutation(k + m)
    Xfull = np.concatenate([S, Zm], axis=1)[:, perm]
    pos_of = {c: p for p, c in enumerate(perm)}
    sens = [pos_of[j] for j in range(k)]
    other = [p for p in range(k + m) if perm[p] >= k]
    detail = {"seed": int(seed), "n": int(n), "k": int(k), "m": int(m), "mode": int(mode)}
    try:
        for container in ("ndarray", "frame"):
            if container == "ndarray":
                X = Xfull; ids = list(sens)
            else:
                X = pd.DataFrame(Xfull, columns=[f"c{p}" for p in range(k + m)]); ids = [f"c{p}" for p in sens]
            cr1 = CorrelationRemover(sensitive_feature_ids=ids, alpha=1.0)
            o1 = np.asarray(cr1.fit_transform(X))
            if o1.shape != (n, m):
                out.append(({"api": "fit_transform", "kind": "shape", "real": True}, f"shape {o1.shape}", detail)); continue
            Sx = Xfull[:, sens]
            scale = max(1.0, np.abs(Xfull).max()) ** 2 * n
            cov = (o1 - o1.mean(axis=0)).T @ (Sx - Sx.mean(axis=0))
            sv = np.linalg.svd(Sx - Sx.mean(axis=0), compute_uv=False)
            # centred sensitive columns that are rank deficient up to rounding noise (always when k >= n; collinear columns otherwise)
            noisy_rank_deficient = bool(len(sv) and sv[0] > 0 and 0 < sv[-1] / sv[0] < 1e-12) or bool(k >= n)
            k_ge_n = bool(k >= n)
            if np.abs(cov).max() > 1e-8 * scale:
                out.append(({"api": "fit_transform", "kind": "covariance", "real": True, "noisy_rank_deficient": noisy_rank_deficient, "sensitive_columns_ge_rows": k_ge_n},
                            f"covariance {np.abs(cov).max()} (n={n}, k={k}, mode={mode}; singular values of the centred sensitive columns {sv.tolist()})", detail))
                continue
            al = float(rs.uniform(0, 1))
            oa = np.asarray(CorrelationRemover(sensitive_feature_ids=ids, alpha=al).fit_transform(X))
            if not np.allclose(oa, al * o1 + (1 - al) * Xfull[:, other], atol=1e-9 * max(1.0, np.abs(Xfull).max())):
                out.append(({"api": "fit_transform", "kind": "alpha", "real": True}, f"alpha={al}: output != alpha*residual + (1-alpha)*original", detail))
            # affinity and training-consistency of transform on new data
            N1 = rs.randn(3, k + m) * 5; N2 = rs.randn(3, k + m) * 5; t = float(rs.uniform(-1, 2))
            wrap = (lambda A: A) if container == "ndarray" else (lambda A: pd.DataFrame(A, columns=[f"c{p}" for p in range(k + m)]))
            T1, T2, T3 = (np.asarray(cr1.transform(wrap(A))) for A in (N1, N2, t * N1 + (1 - t) * N2))
            if not np.allclose(T3, t * T1 + (1 - t) * T2, atol=1e-8 * max(1.0, np.abs(T3).max())):
                out.append(({"api": "transform", "kind": "not_affine", "real": True}, "transform is not an affine map on new data", detail))
            if not np.allclose(np.asarray(cr1.transform(X)), o1, atol=1e-10 * max(1.0, np.abs(o1).max())):
                out.append(({"api": "transform", "kind": "fit_transform_mismatch", "real": True}, "transform(train) != fit_transform(train)", detail))
    except Exception as e:
        out.append(({"api": "CorrelationRemover", "kind": "exception", "real": True}, f"raised {e!r}", detail))
    return out, int(mode)


def run(ck):
    ck.rule = ("CorrRem.tla: every multiset of rows (K sensitive + M other integer columns, entries 0..V-1) with >= 2 rows is one TLC state, replayed with shuffled rows, a seeded column "
               "layout, ndarray/DataFrame, alpha in {0, 1/2, 1}, new-row transform; plus seeded real-valued matrices (n<=40, 1..4 sensitive columns, constant / collinear cases)")
    confs = [(3, 1, 1, 3), (3, 2, 1, 3), (4, 2, 1, 2), (3, 2, 2, 2)] if ck.quick else [(4, 1, 1, 3), (4, 2, 1, 2), (3, 2, 2, 2), (3, 2, 1, 3), (5, 1, 1, 2), (4, 2, 2, 2)]
    cases = []
    for (N, K, M, V) in confs:
        ck.tlc("CorrRem", cfg(N, K, M, V, False), f"laws N<={N} K={K} M={M} V={V}", timeout=3000)
        cases += ck.tlc_shards("CorrRem", lambda k: cfg(N, K, M, V, True, 8, k), 8, f"emit N<={N} K={K} M={M} V={V}", same_space=True, timeout=3000)
    ck.exhaustive = True
    ranks = {}
    for c, (viol, rank) in zip(cases, pmap(_one, [(c, ck.seed) for c in cases])):
        ck.impl += 1
        ck.nt(json.dumps([c["K"], c["rows"]]))
        ranks[(c["K"], rank)] = ranks.get((c["K"], rank), 0) + 1
        for sig, text, detail in viol:
            ck.violation(sig, text, {"rows": c["rows"], **detail})
    nreal = 300 if ck.quick else 2500
    modes = {}
    for viol, mode in pmap(_real, [656, 2191] + [ck.seed * 100003 + i for i in range(nreal)]):      # 656 / 2191: the recorded D15 inputs
        ck.impl += 1
        modes[mode] = modes.get(mode, 0) + 1
        for sig, text, detail in viol:
            ck.violation(sig, text, detail)
    ck.evaluations = ck.impl
    mid = cases[len(cases) // 2]
    ck.sample({"rows": mid["rows"], "K": mid["K"], "rank": mid["rank"], "residual": mid["residual"]})
    ck.extra.update({"states_by_(K,rank)": {str(k): v for k, v in ranks.items()}, "real_matrices": nreal})
    if not any(k[0] == 2 and k[1] < 2 for k in ranks):
        raise MachineryError("vacuity: no rank-deficient two-column state")
    ck.assumptions += ["3 and 4 sensitive columns only through the real-valued direct checks (the exact spec covers K <= 2)",
                       "float64 vs exact rationals at 1e-9; covariance tolerance 1e-8 * n * max|X|^2 on real matrices"]


def replay(ck, path):
    run(ck)
