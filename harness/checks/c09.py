"""C09 - GridSearch trains a faithful best response per grid point and picks the argmin.

Specs: Grid.tla (transcribed lattice / n_units search / basis map / selection rule; TLC checks
distinctness, count, L1 bound, injectivity of the basis map, minimality of n_units for every
dim x sign pattern x grid_size) and Moments.tla in table mode (exact payoff table of the whole
hypothesis class per dataset).  Binding A: real GridSearch.fit with an exact cost-sensitive
learner on TLC-emitted datasets; property tier: grid_size distinct non-negative multiplier
vectors with L1 <= grid_limit, every predictor a best response on the exact table, recorded
objective/gamma = table entries of the predictor's actual predictions, best_idx_ minimises the
trade-off, predict/predict_proba delegate.  Refinement tier: integer lattice == Grid.tla.
"""
import json
import random
from fractions import Fraction

import numpy as np

from harness.core import R, close, pmap, MachineryError
from harness import mom_common as M
from harness import red_common as RC

TOL = 1e-9


def grid_cfg(maxdim, maxsize, emit, minsize=2):
    return (f"CONSTANTS MaxDim = {maxdim} MaxSize = {maxsize} MinSize = {minsize} Emit = {'TRUE' if emit else 'FALSE'}\n"
            "INIT Init\nNEXT Next\nINVARIANT AllInv\nINVARIANT SelectionLaw\nINVARIANT OffsetLaw\nINVARIANT EmitInv\nCHECK_DEADLOCK FALSE\n")


def _lattice(args):
    """refinement tier: the real _GridGenerator's integer grid equals the specification's"""
    g = args
    import pandas as pd
    from fairlearn.reductions._grid_search._grid_generator import _GridGenerator
    dim, neg, force, size = g["dim"], g["neg"], g["force"], g["size"]
    idx = pd.Index([f"k{d}" for d in range(dim)])
    pos_basis = pd.DataFrame(np.eye(dim), index=idx, columns=range(dim))
    neg_basis = pd.DataFrame(0.0, index=idx, columns=range(dim))
    gen = _GridGenerator(size, float(g["nu"]), pos_basis, neg_basis, pd.Series(neg), force)   # grid_limit = nu -> scale 1
    got = [[int(round(v)) for v in gen.accumulator[i]] for i in range(size)]
    ok = got == [list(p) for p in g["pts"]]
    return ok, got if not ok else None


def _fit(args):
    case, conf, seed = args
    import pandas as pd
    import fairlearn.reductions as red
    kind, rq, gsize, glimit, cw, which = conf
    out = []
    notes = []
    d = M.materialise(case, seed, which)
    n = d["n"]
    F = case["F"]
    sig0 = {"moment": kind}
    detail = {"config": conf, "data": {k: d[k] for k in ("g", "y", "f")}}
    if kind == "BGL":
        return _fit_bgl(case, conf, seed, d)
    tab = RC.Table(case, kind, rq)
    ratio = case["ratios"][rq]
    full = len(tab.keys) == 2 * case["G"] * (2 if kind == "EO" else 1)
    # precondition: the constraint has at least one non-redundant direction (some event is shared by two groups);
    # otherwise there is a single meaningful multiplier vector and "grid_size distinct vectors" cannot be asked for
    evs = {}
    for (_, c, lab, g) in tab.index:
        evs.setdefault((c, lab), set()).add(g)
    if not any(len(v) >= 2 for v in evs.values()):
        return [], ["skipped: no event shared by two groups"], full
    try:
        RC.ExactLearner.calls = []
        if (gsize + which) % 3 == 0:
            # estimator that keeps its fitted state in a nested object (Pipeline fits its steps in place)
            from sklearn.pipeline import Pipeline
            from sklearn.preprocessing import FunctionTransformer
            gs = red.GridSearch(Pipeline([("id", FunctionTransformer()), ("clf", RC.ExactLearner())]), M.make_moment(kind, ratio), grid_size=gsize, grid_limit=glimit,
                                constraint_weight=cw, sample_weight_name="clf__sample_weight")
        else:
            gs = red.GridSearch(RC.ExactLearner(), M.make_moment(kind, ratio), grid_size=gsize, grid_limit=glimit, constraint_weight=cw)
        gs.fit(d["X"], np.array(d["y"]), sensitive_features=d["g"])
        calls = RC.ExactLearner.calls
        RC.ExactLearner.calls = None
    except Exception as e:
        if "Sample weights must contain at least one non-zero number" in str(e):
            # a grid point whose signed weights cancel the objective weights exactly on every row: every hypothesis is a
            # best response and the learner is given all-zero weights (precondition of the reduction: some weight non-zero)
            return [], ["skipped: a grid point gives all-zero sample weights"], full
        return [({"api": "GridSearch.fit", "kind": "exception", "exc": type(e).__name__, **sig0}, f"fit raised {e!r}", detail)], notes, full
    lv = gs.lambda_vecs_
    cols = [tuple(np.round(lv[c].values, 12)) for c in lv.columns]
    # (1) exactly grid_size distinct non-negative vectors with L1 <= grid_limit
    if len(cols) != gsize:
        out.append(({"api": "lambda_vecs_", "kind": "count", **sig0}, f"{len(cols)} multiplier vectors for grid_size={gsize}", detail))
    if len(set(cols)) != len(cols):
        out.append(({"api": "lambda_vecs_", "kind": "duplicates", "all_pairs_present": full, **sig0},
                    f"{len(cols)} multiplier vectors but only {len(set(cols))} distinct (grid_size={gsize})", detail))
    if (lv.values < -1e-12).any():
        out.append(({"api": "lambda_vecs_", "kind": "negative", **sig0}, "negative multiplier", detail))
    if (np.abs(lv.values).sum(axis=0) > glimit + 1e-9).any():
        out.append(({"api": "lambda_vecs_", "kind": "l1", **sig0}, f"L1 norm {np.abs(lv.values).sum(axis=0).max()} > grid_limit {glimit}", detail))
    if len(gs.predictors_) != len(cols) or len(gs.objectives_) != len(cols) or gs.gammas_.shape[1] != len(cols):
        out.append(({"api": "predictors_", "kind": "count", **sig0}, "one predictor / objective / gamma column per grid point expected", detail))
        return out, notes, full
    # (2) faithful best response and bookkeeping on the exact table
    losses = []
    for i, c in enumerate(lv.columns):
        lam = lv[c]
        h = RC.hyp_of(gs.predictors_[i], F)
        e_h = tab.err_of(h)
        g_h = tab.gamma_of(h)
        if not close(gs.objectives_[i], e_h):
            out.append(({"api": "objectives_", "kind": "value", **sig0}, f"objectives_[{i}] = {gs.objectives_[i]!r} but predictor {h} has error {e_h}", detail))
        gcol = gs.gammas_[c]
        for k, key in enumerate(tab.keys):
            if not close(gcol[key], g_h[k]):
                out.append(({"api": "gammas_", "kind": "value", **sig0}, f"gammas_[{i}]{key} = {gcol[key]!r} but predictor {h} has gamma {g_h[k]}", detail))
                break
        lamv = [float(lam[key]) for key in tab.keys]
        val = float(e_h) + sum(l * float(g) for l, g in zip(lamv, g_h))
        best = min(float(tab.err[q]) + sum(l * float(g) for l, g in zip(lamv, tab.gamma[q])) for q in range(len(tab.hyps)))
        if val > best + TOL:
            out.append(({"api": "predictors_", "kind": "not_best_response", **sig0},
                        f"predictor {i} ({h}) has error+lambda.gamma = {val} but the class minimum is {best} for lambda {dict(lam[lam != 0])}", detail))
        losses.append((1 - cw) * float(e_h) + cw * max(float(x) for x in g_h))
    # one learner call (or constant short-cut) per column, in column order, with the relabel/reweight of that column
    ci = 0
    for i, c in enumerate(lv.columns):
        w = gs.constraints.signed_weights(lv[c]) + pd.Series([1.0 if yy == 1 else -1.0 for yy in d["y"]])
        ry = (w > 0).astype(int).tolist()
        if len(set(ry)) == 1:
            continue
        if ci >= len(calls) or calls[ci][0] != ry or not np.allclose(calls[ci][1], np.abs(w.values), atol=1e-12):
            out.append(({"api": "oracle_calls", "kind": "protocol", **sig0}, f"learner call {ci} does not carry the relabel/reweight of grid column {i}", detail))
            break
        ci += 1
    # (3) selection and delegation
    if losses[gs.best_idx_] > min(losses) + TOL:
        out.append(({"api": "best_idx_", "kind": "not_argmin", **sig0}, f"best_idx_={gs.best_idx_} has trade-off {losses[gs.best_idx_]} > min {min(losses)} (cw={cw})", detail))
    elif gs.best_idx_ != losses.index(min(losses)) and abs(losses[gs.best_idx_] - min(losses)) > 1e-15:
        notes.append("best_idx_ is a minimiser but not the first one")
    Xq = np.array([[0, f] for f in range(F)] * 2, dtype=float)
    if not np.array_equal(gs.predict(Xq), gs.predictors_[gs.best_idx_].predict(Xq)):
        out.append(({"api": "predict", "kind": "delegation", **sig0}, "predict differs from predictors_[best_idx_].predict", detail))
    try:
        if not np.array_equal(gs.predict_proba(Xq), gs.predictors_[gs.best_idx_].predict_proba(Xq)):
            out.append(({"api": "predict_proba", "kind": "delegation", **sig0}, "predict_proba differs from the selected predictor's", detail))
    except AttributeError:
        pass   # the selected predictor is a constant DummyClassifier without predict_proba agreement issues
    # (4) the selection clause does not depend on where the vectors came from: the SAME vectors handed back by the user
    #     as grid=, in another column order and with their original labels, must again select the argmin and delegate to it
    if (gsize + which) % 4 == 1 and len(lv.columns) >= 3:
        try:
            user = lv[list(lv.columns[::-1])]
            g2 = red.GridSearch(RC.ExactLearner(), M.make_moment(kind, ratio), grid=user, constraint_weight=cw)
            g2.fit(d["X"], np.array(d["y"]), sensitive_features=d["g"])
            l2 = []
            for pr in g2.predictors_:
                h2 = RC.hyp_of(pr, F)
                l2.append((1 - cw) * float(tab.err_of(h2)) + cw * max(float(x) for x in tab.gamma_of(h2)))
            bi = int(g2.best_idx_)
            if not (0 <= bi < len(l2)) or l2[bi] > min(l2) + TOL:
                out.append(({"api": "best_idx_", "kind": "not_argmin", "user_grid": True, **sig0},
                            f"user-supplied grid (columns {list(user.columns)}): best_idx_={g2.best_idx_} has trade-off {l2[bi] if 0 <= bi < len(l2) else None} > min {min(l2)} (cw={cw})", detail))
            elif not np.array_equal(g2.predict(Xq), g2.predictors_[bi].predict(Xq)):
                out.append(({"api": "predict", "kind": "delegation", "user_grid": True, **sig0}, "user-supplied grid: predict differs from the selected predictor's", detail))
        except Exception as e:
            if "non-zero number" not in str(e):
                out.append(({"api": "GridSearch.fit", "kind": "exception", "exc": type(e).__name__, "user_grid": True, **sig0}, f"fit / predict with a user-supplied grid raised {e!r}", detail))
    return out, notes, full


def _fit_bgl(case, conf, seed, d):
    import pandas as pd
    import fairlearn.reductions as red
    kind, lossname, gsize, glimit, cw, which = conf
    out = []
    F = case["F"]
    sig0 = {"moment": "BGL"}
    detail = {"config": conf, "data": {k: d[k] for k in ("g", "y", "f")}}
    present = sorted({r[0] for r in case["rows"]})
    if len(present) < 2:
        return out, [], True
    loss = red.SquareLoss(0, 1) if lossname == "square" else red.AbsoluteLoss(0, 1)
    try:
        gs = red.GridSearch(RC.GridRegressor((0.0, 0.5, 1.0), lossname), red.BoundedGroupLoss(loss, upper_bound=0.1),
                            grid_size=gsize, grid_limit=glimit, constraint_weight=cw)
        gs.fit(d["X"], np.array(d["y"], dtype=float), sensitive_features=d["g"])
    except Exception as e:
        return [({"api": "GridSearch.fit", "kind": "exception", "exc": type(e).__name__, "constant_targets": len(set(d["y"])) == 1, **sig0}, f"fit raised {e!r}", detail)], [], True
    lv = gs.lambda_vecs_
    cols = [tuple(np.round(lv[c].values, 12)) for c in lv.columns]
    if len(cols) != gsize or len(set(cols)) != len(cols):
        out.append(({"api": "lambda_vecs_", "kind": "duplicates" if len(cols) == gsize else "count", "all_pairs_present": True, **sig0},
                    f"{len(cols)} vectors, {len(set(cols))} distinct, grid_size={gsize}", detail))
    if (lv.values < -1e-12).any() or (np.abs(lv.values).sum(axis=0) > glimit + 1e-9).any():
        out.append(({"api": "lambda_vecs_", "kind": "l1", **sig0}, "negative multiplier or L1 > grid_limit", detail))
    reg = [tuple(h) for h in case["reg_hyps"]]
    tab = case["bgl"][lossname]
    Xq = np.array([[0, f] for f in range(F)], dtype=float)
    losses = []
    for i, c in enumerate(lv.columns):
        lam = lv[c]
        h = tuple(int(round(2 * v)) for v in gs.predictors_[i].predict(Xq))
        q = reg.index(h)
        gam = {M.GLAB[g]: R(tab[q][g - 1]) for g in present}
        for a in gam:
            if not close(gs.gammas_[c][a], gam[a]):
                out.append(({"api": "gammas_", "kind": "value", **sig0}, f"gammas_[{i}][{a}] = {gs.gammas_[c][a]!r}, table {gam[a]}", detail))
        val = sum(float(lam[a]) * float(gam[a]) for a in gam)
        best = min(sum(float(lam[M.GLAB[g]]) * float(R(tab[qq][g - 1])) for g in present) for qq in range(len(reg)))
        if val > best + TOL:
            out.append(({"api": "predictors_", "kind": "not_best_response", **sig0}, f"predictor {i} weighted loss {val} > class minimum {best}", detail))
        cnt = {a: d["g"].count(a) / d["n"] for a in gam}
        obj = sum(cnt[a] * float(gam[a]) for a in gam)
        if not close(gs.objectives_[i], Fraction(obj).limit_denominator(10 ** 9)):
            out.append(({"api": "objectives_", "kind": "value", **sig0}, f"objectives_[{i}] = {gs.objectives_[i]} vs mean loss {obj}", detail))
        losses.append((1 - cw) * obj + cw * max(float(x) for x in gam.values()))
    if losses and losses[gs.best_idx_] > min(losses) + TOL:
        out.append(({"api": "best_idx_", "kind": "not_argmin", **sig0}, f"best_idx_ {gs.best_idx_}: {losses[gs.best_idx_]} > {min(losses)}", detail))
    if not np.array_equal(gs.predict(Xq), gs.predictors_[gs.best_idx_].predict(Xq)):
        out.append(({"api": "predict", "kind": "delegation", **sig0}, "predict differs from the selected predictor's", detail))
    return out, [], True


def run(ck):
    ck.rule = ("Grid.tla: every (dim, sign pattern, force, grid_size) configuration is a TLC state, each replayed into the real _GridGenerator; "
               "Moments.tla table mode: usable datasets (>= 2 groups, both labels) with F feature values; GridSearch.fit per dataset x moment x ratio x grid_size x grid_limit x constraint_weight")
    # ---- lattice
    md, ms = (3, 40) if ck.quick else (4, 60)
    lat = ck.tlc("Grid", grid_cfg(md, ms, True), f"lattice laws + emit dim<={md} size<={ms}", timeout=3000)
    lres = pmap(_lattice, lat.emitted)
    for g, (ok, got) in zip(lat.emitted, lres):
        ck.impl += 1
        ck.nt(json.dumps([g["dim"], g["neg"], g["force"], g["size"]]))
        if not ok:
            ck.note_drift(f"integer lattice differs from Grid.tla for dim={g['dim']} neg={g['neg']} force={g['force']} size={g['size']}: {got} vs {g['pts']}")
    ck.extra["lattice_configs_compared"] = len(lres)
    # ---- payoff tables
    if ck.quick:
        tabs = [(4, 2, 2), (3, 3, 2)]
        per = 3
        cap = 300
    else:
        tabs = [(5, 2, 2), (4, 3, 2), (4, 2, 3), (4, 4, 2)]
        per = 6
        cap = 700
    cases = []
    for (N, G, F) in tabs:
        cases += ck.tlc_shards("Moments", lambda k: M.cfg(N, G, 1, F, True, mode="table", laws=(), nshards=8, shard=k), 8,
                               f"payoff tables N<={N} G={G} F={F}", same_space=True, timeout=3000)
    rnd = ck.rng("c09")
    rnd.shuffle(cases)
    cases = cases[:cap]
    # data whose labels are all equal are binary data too (the relabelled problem can still have two classes)
    const = [c for c in ck.tlc_shards("Moments", lambda k: M.cfg(4, 2, 1, 2, True, mode="table_all", laws=(), nshards=8, shard=k), 8, "payoff tables incl. constant labels N<=4 G=2 F=2",
                                      same_space=True, timeout=3000) if len({r[1] for r in c["rows"]}) == 1 and len(c["rows"]) >= 3]
    rnd.shuffle(const)
    cases += const[: (30 if ck.quick else 150)]
    jobs = []
    for c in cases:
        for _ in range(per):
            kind = rnd.choice(M.KINDS)
            jobs.append((c, (kind, rnd.randrange(3), rnd.choice([2, 3, 5, 7, 10, 16, 31, 60]), rnd.choice([0.5, 1.0, 2.0, 3.5]),
                             rnd.choice([0.0, 0.25, 0.5, 0.9, 1.0]), rnd.randrange(2)), ck.seed))
        jobs.append((c, ("BGL", rnd.choice(["square", "absolute"]), rnd.choice([2, 3, 5, 9, 17]), rnd.choice([1.0, 2.0]), rnd.choice([0.0, 0.5, 1.0]), 1), ck.seed))
    res = pmap(_fit, jobs)
    lacking = 0
    for (c, conf, _), (viol, notes, full) in zip(jobs, res):
        ck.impl += 1
        ck.nt(json.dumps([c["rows"], conf]))
        lacking += (not full)
        for sig, text, detail in viol:
            ck.violation(sig, text, {"rows": c["rows"], **detail})
        for nt in notes:
            if nt.startswith("skipped"):
                ck.skipped.append({"rows": c["rows"], "config": conf, "why": nt})
            else:
                ck.note_drift(nt)
    from harness import extras
    extras.grid_options(ck, [j for j in jobs if j[1][0] != "BGL"][:60 if ck.quick else 400])      # specification growth (refinement tier only)
    ck.evaluations = len(jobs) + len(lres)
    ck.sample({"lattice": lat.emitted[len(lat.emitted) // 2]})
    ck.sample({"rows": jobs[0][0]["rows"], "config": jobs[0][1]})
    ck.extra["fits_where_some_event_group_pair_is_absent"] = lacking
    ck.assumptions += ["multipliers are floats: best-response and trade-off inequalities are evaluated in float64 (slack 1e-9) over TLC's exact payoff table",
                       "exact learner: per-feature-value weighted vote (classification) / best value in {0,1/2,1} (loss moments)"]


def replay(ck, path):
    run(ck)
