"""C05 - ThresholdOptimizer returns the best parity-satisfying threshold rule on its grid.

Spec: spec/Threshold.tla - OptSimple / OptEO defined through the algorithm-independent upper
hull (max over exact points and straddling pairs); TLC checks concavity, Opt >= best constant,
and that the code's monotone-chain + searchsorted interpolation (transcribed as CodeHull)
agrees with that hull on every small dataset.  Binding A: the objective realised by the fitted
rule (computed from _pmf_predict) must equal the specification's optimum.
"""
import json

from harness import thr_common as T
from harness.core import R, MachineryError

TOL = 1e-9


def run(ck):
    ck.rule = ("states/configurations as in C04; the realised objective (group-frequency weighted per-group objective; overall accuracy / balanced "
               "accuracy for equalized odds) is compared with the exact optimum emitted by TLC; grid_size=1000 fits must dominate every emitted grid dividing 1000")
    cases, jobs, recs = T.explore(ck)
    strict = 0
    for (case, conf, seed, which, _, gso), r in zip(jobs, recs):
        ck.impl += 1
        ck.nt(json.dumps([case["rows"], r["config"]]))
        if "error" in r:
            ck.violation({"api": "fit", "kind": "exception", "constraint": r["config"][1]}, f"fit/_pmf_predict raised {r['error']}", r)
            continue
        obj = r["objective"]
        const = float(R(r["const"]))
        if obj < const - TOL:
            ck.violation({"api": "fit", "kind": "worse_than_constant", "constraint": r["config"][1]},
                         f"objective {obj} below the best constant classifier {const} for {r['config']}", r)
        if gso is None:
            exp = float(R(r["expected"]))
            if abs(obj - exp) > TOL:
                ck.violation({"api": "fit", "kind": "not_optimal" if obj < exp else "above_optimum", "constraint": r["config"][1], "objective": r["config"][2], "flip": r["config"][3]},
                             f"realised objective {obj!r} != optimum {r['expected']} = {exp!r} for {r['config']}", r)
            if exp > const + 1e-12:
                strict += 1
        else:
            kind, ci, oi, fi, ki = conf
            for k2, gs in enumerate(case["gs"]):
                if 1000 % gs == 0:
                    lb = float(R(case["simple"][ci][oi][fi][k2] if kind == "simple" else case["eo"][oi][fi][k2]))
                    if obj < lb - TOL:
                        ck.violation({"api": "fit", "kind": "grid1000_worse", "constraint": r["config"][1]},
                                     f"grid_size=1000 objective {obj} < optimum {lb} on the coarser grid {gs}", r)
    ck.evaluations = len(recs)
    mid = len(recs) // 2
    ck.sample({"rows": jobs[mid][0]["rows"], "config": recs[mid].get("config"), "objective": recs[mid].get("objective"), "optimum": recs[mid].get("expected")})
    ck.extra["datasets"] = len(cases)
    ck.extra["configs_strictly_better_than_constant"] = strict
    if strict == 0:
        raise MachineryError("vacuity: optimum never exceeded the constant classifier")
    ck.assumptions += ["per-group objectives are linear in the group's confusion counts, so randomising over thresholdings spans exactly the convex hull (stated in Threshold.tla)"]


def replay(ck, path):
    run(ck)
