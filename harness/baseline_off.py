"""Run the repository's pinned test command with the hook guard OFF and compare with BASELINE.json."""
import json
import os
import subprocess
import sys
import tempfile
import xml.etree.ElementTree as ET


def main():
    base = json.load(open("/root/.vp/BASELINE.json"))
    env = dict(os.environ)
    env.pop("FAIRLEARN_VERIF_TRACE", None)
    out = tempfile.mktemp(suffix=".xml", prefix="verif_baseline_")
    cmd = base["cmd"].replace("<file>", out)
    subprocess.run(cmd, shell=True, env=env)
    passed = set()
    for tc in ET.parse(out).getroot().iter("testcase"):
        if not any(ch.tag in ("failure", "error", "skipped") for ch in tc):
            passed.add(f"{tc.get('classname')}::{tc.get('name')}")
    os.unlink(out)
    missing = [t for t in base["stable_pass"] if t not in passed]
    print(f"stable tests expected: {len(base['stable_pass'])}  passing now: {len(base['stable_pass']) - len(missing)}")
    for t in missing[:40]:
        print("NOT PASSING:", t)
    return 1 if missing else 0


if __name__ == "__main__":
    sys.exit(main())
