"""./check selftest [--tier quick|thorough]

Demonstrates the binding of the specifications to the code:
 (1) every patch under mutants/ and seeded/*/ is applied to a scratch worktree of /repo (outside /repo
     and /verif) and the corresponding quick check must report a VIOLATION (tier quick: a fixed subset
     of fast checks; thorough: all patches);
 (2) recorded traces are corrupted (one field changed, one event dropped) and must be REJECTED by the
     trace specifications, while the uncorrupted trace is accepted.
Exit 0 iff everything behaves as expected.
"""
import copy
import glob
import json
import os
import subprocess
import sys

from harness import core

DMAP = {"D1": ["C14"], "D2": ["C06"], "D3": ["C15"], "D4": ["C16"], "D5": ["C12"], "D6": ["C19"], "D7": ["C19"], "D9": ["C19"], "D10": ["C10"],
        "D11": ["C09"], "D12": ["C16"], "D13": ["C09"], "D14": ["C09"]}
FAST = {"C09", "C13", "C14", "C16", "C17", "C18", "C19", "C20"}


def patches():
    out = []
    for p in sorted(glob.glob(os.path.join(core.VERIF, "mutants", "*.patch"))):
        name = os.path.basename(p)
        key = name.split("_")[0]
        out.append((p, DMAP.get(key, [key])))
    for d in sorted(glob.glob(os.path.join(core.VERIF, "seeded", "*"))):
        p = os.path.join(d, "patch.diff")
        if os.path.exists(p):
            out.append((p, [os.path.basename(d).split("_")[0]]))
    return out


def trace_corruption(ck):
    """accepted trace -> corrupt a slice bound / drop an event -> must be rejected (AdvTrace); same for an EG trace"""
    from harness.checks import c17, c08
    from harness import eg_common as E
    bad = []
    c = {"n": 11, "bs": 4, "ep": 2, "mi": -1, "stop": 5, "k": 2, "who": 1}
    ev, _, _ = c17.run_cfg(c)
    good = {"cfg": c, "shuffle": False, "events": [{k: v for k, v in e.items() if k != "contig"} for e in ev]}
    t1 = copy.deepcopy(good); [e for e in t1["events"] if e["ev"] == "step"][1]["hi"] -= 1          # corrupted slice bound
    t2 = copy.deepcopy(good); del t2["events"][2]                                                     # dropped event
    t3 = copy.deepcopy(good); [e for e in t3["events"] if e["ev"] == "cb"][0]["step"] += 1            # corrupted step number
    acc, _ = ck.validate_traces("AdvTrace", [good, t1, t2, t3], c17.cfg(0, 0, 0, 0, 0, 3, False, trace=True), "selftest AdvTrace", shards=1, diag=False)
    if acc != [True, False, False, False]:
        bad.append(f"AdvTrace verdicts {acc}, expected [True, False, False, False]")
    # EG trace
    cases = ck.tlc_shards("Moments", lambda k: __import__("harness.mom_common", fromlist=["x"]).cfg(4, 2, 1, 2, True, mode="table", laws=(), nshards=2, shard=k), 2, "selftest tables", same_space=True)
    r = E.run_fit((cases[5], ("DP", 0, 0.2, 8, True, 2.0, 1e-3, 0), 0, False))
    g = r["trace"]
    if g is None:
        bad.append("no EG trace recorded (hooks off?)")
    else:
        u1 = copy.deepcopy(g); it = [e for e in u1["events"] if e["ev"] == "iter"][-1]; it["qsum"][0] += 1           # corrupted weight numerator
        u2 = copy.deepcopy(g); u2["events"] = [e for i, e in enumerate(u2["events"]) if not (e["ev"] == "oracle" and i == 0)]   # dropped hook event
        u3 = copy.deepcopy(g); [e for e in u3["events"] if e["ev"] == "done"][0]["best_iter"] = max(0, [e for e in u3["events"] if e["ev"] == "done"][0]["best_iter"] - 1) \
            if [e for e in u3["events"] if e["ev"] == "done"][0]["best_iter"] > 0 else 1
        acc, _ = ck.validate_traces("EGTrace", [g, u1, u2, u3], c08.eg_cfg(60, 200, 40, 4, 8, trace=True), "selftest EGTrace", shards=1, diag=False)
        if acc[0] is not True or any(acc[1:3]):
            bad.append(f"EGTrace verdicts {acc}, expected [True, False, False, ...]")
    return bad


def main(tier="quick"):
    core.setup_repo_path()
    ck = core.Check("C17", "quick", 0)
    bad = trace_corruption(ck)
    for b in bad:
        print("SELFTEST-FAIL", b)
    print(f"trace corruption: {'ok' if not bad else 'FAILED'}")
    n = ok = 0
    for p, ids in patches():
        for cid in ids:
            if tier == "quick" and cid not in FAST:
                continue
            n += 1
            r = subprocess.run([os.path.join(core.VERIF, "tools", "mutant_run.sh"), p, cid], capture_output=True, text=True)
            hit = f"== {cid} exit=1" in r.stdout
            ok += hit
            stale = "PATCH-DOES-NOT-APPLY" in r.stdout
            print(("caught  " if hit else ("STALE (patch does not apply to /repo HEAD) " if stale else "MISSED  ")) + os.path.relpath(p, core.VERIF) + " by " + cid, flush=True)
            if not hit:
                bad.append(f"{p} not caught by {cid}")
    print(f"mutants caught: {ok}/{n}")
    import shutil
    shutil.rmtree(ck.tmp, ignore_errors=True)
    return 0 if not bad else 1


if __name__ == "__main__":
    sys.exit(main())
