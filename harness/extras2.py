"""Specification growth beyond the listed properties (continued); refinement tier only, see extras.py."""
import json

import numpy as np

from harness.core import pmap

_Y = [0, 1, 1, 0, 1]; _P = [0.0, 1.0, 0.0, 1.0, 1.0]; _G = ["a", "a", "a", "b", "b"]
_W = [1.0, 2.0, 1.0, 3.0, 1.0]; _W2 = [2.0, 1.0, 1.0, 1.0, 4.0]


def _derived_one(ob):
    """Derived.tla state -> real make_derived_metric with a recording metric"""
    import warnings
    import fairlearn.metrics as fm
    log = []

    def seen(**kw):
        log.append({k: (len(v) if hasattr(v, "__len__") else "scalar") for k, v in kw.items() if v is not None})

    def rec(y_true, y_pred, sample_weight=None, w2=None, alpha=None):
        seen(n=list(y_true), sample_weight=sample_weight, w2=w2, alpha=alpha)
        w = np.ones(len(y_pred))
        for v in (sample_weight, w2):
            if v is not None and hasattr(v, "__len__") and len(v) == len(y_pred):
                w = w * np.asarray(v, dtype=float)
        a = 0.0 if alpha is None else float(np.mean(alpha))
        return float(np.dot(w, y_pred) / w.sum()) + a

    def rec_m(y_true, y_pred, method=None, sample_weight=None, w2=None, alpha=None):
        return rec(y_true, y_pred, sample_weight, w2, alpha)

    tag = "given=%s sample_param_names=%s transform=%s" % ([k for k, b in ob["given"].items() if b], [k for k, b in ob["spn"].items() if b], ob["transform"])
    metric = "not a function" if not ob["callable"] else rec_m if ob["metric_has_method"] else rec
    spn = [k for k, b in ob["spn"].items() if b]
    try:
        dm = fm.make_derived_metric(metric=metric, transform=ob["transform"], sample_param_names=spn)
        got = "ok"
    except ValueError as e:
        m = str(e)
        got = "not_callable" if "must be callable" in m else "method_arg_error" if "may not be passed to make_derived_metric" in m else "invalid_transform" if "Transform must be one of" in m else "ValueError " + m[:50]
    except Exception as e:
        got = f"{type(e).__name__} {str(e)[:50]}"
    if got != ob["construction"]:
        return [f"derived {tag}: construction outcome '{got}', Derived.tla says '{ob['construction']}'"]
    if got != "ok":
        return []
    vals = {"sample_weight": _W, "w2": _W2, "alpha": 0.25, "method": "to_overall"}
    kw = {k: vals[k] for k, b in ob["given"].items() if b}
    notes = []
    with warnings.catch_warnings():
        warnings.simplefilter("ignore")
        try:
            res = dm(_Y, _P, sensitive_features=_G, **kw)
        except Exception as e:
            return [f"derived {tag}: call raised {type(e).__name__}: {str(e)[:80]}"]
        # what did the metric see in the per-group evaluations (fewer than all 5 rows)?
        for k, b in ob["given"].items():
            if not b:
                continue
            route = ob["route"][k]
            per_group = [c for c in log if c["n"] < 5]
            if k == "method":
                if any("method" in c for c in log):
                    notes.append(f"derived {tag}: the metric function received `method`")
                continue
            if not per_group or any(k not in c for c in log):
                notes.append(f"derived {tag}: parameter {k} did not reach every metric evaluation")
                continue
            sliced = all(c[k] == c["n"] for c in log)
            whole = all(c[k] == ("scalar" if k == "alpha" else 5) for c in log)
            obs_route = "sliced" if sliced else "bound" if whole else "?"
            if obs_route != route:
                notes.append(f"derived {tag}: parameter {k} reached the metric as '{obs_route}', Derived.tla says '{route}'")
        # the value is that of the MetricFrame built with the same routing
        import functools
        bound = {k: vals[k] for k, b in ob["given"].items() if b and ob["route"][k] == "bound"}
        fn = functools.partial(rec, **bound); fn.__name__ = "rec"
        mf = fm.MetricFrame(metrics=fn, y_true=_Y, y_pred=_P, sensitive_features=_G,
                            sample_params={k: vals[k] for k, b in ob["given"].items() if b and ob["route"][k] == "sliced"})
        t = ob["transform"]
        exp = getattr(mf, t)(method="to_overall") if ob["method_used"] else getattr(mf, t)()
        if not (abs(float(res) - float(exp)) <= 1e-12):
            notes.append(f"derived {tag}: value {res!r}, MetricFrame with the routing of Derived.tla gives {exp!r}")
        if ob["method_used"]:
            other = getattr(mf, t)(method="between_groups")
            if abs(float(other) - float(exp)) > 1e-9 and abs(float(res) - float(other)) <= 1e-12:
                notes.append(f"derived {tag}: `method` was not handed to {t}()")
    return notes


def derived(ck):
    laws = "".join(f"INVARIANT {x}\n" for x in ("ExactlyOnePlace", "MetricNeverSeesMethod", "ListedMeansSliced", "DefaultListSlicesWeights", "EmptyListBindsEverything"))
    obs = ck.tlc("Derived", f"CONSTANTS Emit = TRUE\nSPECIFICATION Spec\n{laws}INVARIANT EmitInv\nCHECK_DEADLOCK FALSE\n",
                 "extension: make_derived_metric argument routing", workers=1, timeout=600).emitted
    n = 0
    out = {}
    for ob, notes in zip(obs, pmap(_derived_one, obs, chunksize=8)):
        n += 1
        out[ob["construction"]] = out.get(ob["construction"], 0) + 1
        for t in notes:
            ck.note_drift("[extension Derived.tla] " + t)
    ck.extra["extension_derived_cases"] = n
    ck.extra["extension_derived_construction_outcomes"] = out
    ck.extra["extension_derived_method_dropped_cases"] = sum(1 for ob in obs if ob["method_dropped"] and ob["construction"] == "ok")


def _interp_one(ob):
    """Interp.tla state -> a real InterpolatedThresholder with a hand-written interpolation_dict"""
    from sklearn.utils import Bunch
    from fairlearn.postprocessing._interpolated_thresholder import InterpolatedThresholder
    from fairlearn.postprocessing._threshold_operation import ThresholdOperation
    from harness.thr_common import Passthrough
    thr = lambda t: -np.inf if t == -1 else np.inf if t == 3 else float(t)
    a = Bunch(p0=ob["p0"] / 4.0, operation0=ThresholdOperation(ob["op0"], thr(ob["t0"])), p1=1 - ob["p0"] / 4.0, operation1=ThresholdOperation(ob["op1"], thr(ob["t1"])))
    if ob["ig_on"]:
        a["p_ignore"] = ob["ig_p"] / 4.0
        a["prediction_constant"] = ob["ig_c"] / 4.0
    b = Bunch(p0=1.0, operation0=ThresholdOperation(">", 0.5), p1=0.0, operation1=ThresholdOperation("<", -np.inf))      # the OTHER group: 1 iff score > 0.5
    tag = "rule " + json.dumps({k: ob[k] for k in ("p0", "op0", "t0", "op1", "t1", "ig_on", "ig_p", "ig_c")})
    notes = []
    try:
        it = InterpolatedThresholder(Passthrough(), {"a": a, "b": b}, prefit=True, predict_method="predict")
        it.fit(np.zeros((2, 1)), [0, 1], sensitive_features=["a", "b"])
        X = np.array([[0.0], [0.0], [1.0], [1.0], [2.0], [2.0]]); g = ["a", "b", "b", "a", "a", "b"]
        pmf = it._pmf_predict(X, sensitive_features=g)
        got = [pmf[0, 1], pmf[3, 1], pmf[4, 1]]
        exp = [x / 16.0 for x in ob["pos16"]]
        if any(abs(u - v) > 1e-12 for u, v in zip(got, exp)) or np.abs(pmf.sum(axis=1) - 1).max() > 1e-12:
            notes.append(f"interp {tag}: positive probabilities for scores 0,1,2 are {got}, Interp.tla says {exp}")
        if [pmf[1, 1], pmf[2, 1], pmf[5, 1]] != [0.0, 1.0, 1.0]:
            notes.append(f"interp {tag}: rows of the other group were not answered with that group's rule: {[pmf[1, 1], pmf[2, 1], pmf[5, 1]]}")
        for seed in (0, 1):
            pr = it.predict(X, sensitive_features=g, random_state=seed)
            if not set(np.unique(pr)) <= {0, 1}:
                notes.append(f"interp {tag}: predict outside {{0, 1}}")
            for i, p in ((0, exp[0]), (3, exp[1]), (4, exp[2])):
                if p in (0.0, 1.0) and pr[i] != int(p):
                    notes.append(f"interp {tag}: positive probability {p} but hard prediction {pr[i]}")
    except Exception as e:
        notes.append(f"interp {tag}: {type(e).__name__}: {str(e)[:80]}")
    return notes


def interp(ck):
    laws = "".join(f"INVARIANT {x}\n" for x in ("Valid", "IgnoreAll", "IgnoreNothing", "SwapInvariant", "InfiniteThresholds", "Strict"))
    cfg = lambda k: f"CONSTANTS Emit = TRUE\nNShards = 8\nShard = {k}\nSPECIFICATION Spec\n{laws}INVARIANT EmitInv\nCHECK_DEADLOCK FALSE\n"
    obs = ck.tlc_shards("Interp", cfg, 8, "extension: InterpolatedThresholder rules (hand-written interpolation_dict)", same_space=True)
    if ck.quick:
        ck.rng("interp").shuffle(obs)
        obs = obs[:1500]
    n = 0
    for ob, notes in zip(obs, pmap(_interp_one, obs, chunksize=16)):
        n += 1
        for t in notes:
            ck.note_drift("[extension Interp.tla] " + t)
    ck.extra["extension_interp_rules"] = n


def apalache(ck, spec, init, inv, length, what, timeout=900):
    """Run Apalache (symbolic, unbounded integers) on spec/<spec>.tla: `inv` must hold in all states reachable in
    `length` steps from `init`.  A violated invariant is a failure of the SPECIFICATION (machinery), like a TLC law."""
    import os
    import shutil
    import subprocess
    import time
    from harness import core
    exe = shutil.which("apalache-mc") or "/opt/veriftools/apalache/bin/apalache-mc"
    out = os.path.join(ck.tmp, "apalache")
    t0 = time.time()
    try:
        r = subprocess.run([exe, "check", f"--init={init}", f"--inv={inv}", f"--length={length}", f"--out-dir={out}", "--run-dir=" + out,
                            os.path.join(core.VERIF, "spec", spec + ".tla")], capture_output=True, text=True, timeout=timeout, cwd=ck.tmp)
    except subprocess.TimeoutExpired:
        raise core.MachineryError(f"Apalache timed out after {timeout}s on {what}")
    txt = r.stdout + r.stderr
    if "The outcome is: NoError" not in txt:
        kind = "violated" if "The outcome is: Error" in txt else "failed"
        raise core.MachineryError(f"Apalache {kind}: {what} ({spec}: init={init} inv={inv} length={length})\n{txt[-1500:]}")
    ck.extra.setdefault("apalache_runs", []).append({"what": what, "spec": spec, "init": init, "inv": inv, "length": length, "outcome": "NoError", "wall_s": round(time.time() - t0, 1)})
    shutil.rmtree(out, ignore_errors=True)


def schedule_unbounded(ck):
    """AdvScheduleInd.tla: IndInv is inductive for ALL n, batch sizes, epochs, max_iter and stop steps and implies the
    step-count clause (part of IndInv) and the slice laws."""
    apalache(ck, "AdvScheduleInd", "Init", "IndInv", 0, "unbounded schedule: Init => IndInv")
    apalache(ck, "AdvScheduleInd", "IndInit", "IndInv", 1, "unbounded schedule: IndInv /\\ Next => IndInv'")
    apalache(ck, "AdvScheduleInd", "IndInit", "SliceLaws", 0, "unbounded schedule: IndInv => SliceLaws")


def _bootargs_one(ob):
    import warnings
    import fairlearn.metrics as fm
    nbv = {"none": None, "0": 0, "-1": -1, "1": 1, "5": 5, "2.5": 2.5, "True": True}[ob["nb"]]
    qsv = {"none": None, "[]": [], "[0.5]": [0.5], "[0.9,0.1]": [0.9, 0.1], "[0.0]": [0.0], "[1.0]": [1.0], "[1]": [1], "[0.5,1.5]": [0.5, 1.5]}[ob["qs"]]
    tag = f"n_boot={ob['nb']} ci_quantiles={ob['qs']}"
    notes = []
    mf = None
    with warnings.catch_warnings():
        warnings.simplefilter("ignore")
        for st in ob["hist"]:
            if st["op"] == "construct":
                try:
                    mf = fm.MetricFrame(metrics={"sel": fm.selection_rate}, y_true=[0, 1, 1, 0, 1, 0], y_pred=[0, 1, 0, 0, 1, 1], sensitive_features=list("aabbab"),
                                        n_boot=nbv, ci_quantiles=qsv, random_state=3)
                    got = "constructed"
                except ValueError as e:
                    m = str(e)
                    got = "need_both" if "Must specify both" in m else "bad_n_boot" if "n_boot be a positive integer" in m else "bad_quantile" if "ci_quantiles be floats" in m else "ValueError " + m[:60]
                except TypeError:
                    got = "bool_crash"
                except Exception as e:
                    got = f"{type(e).__name__} {str(e)[:60]}"
                exp = "constructed" if st["answer"] in ("on", "off") else st["answer"]
                if got != exp:
                    return [f"bootargs {tag}: construction '{got}', BootArgs.tla says '{st['answer']}'"]
                continue
            try:
                v = getattr(mf, st["op"])
                v = v() if callable(v) else v
                got, ln = ("list", len(v)) if isinstance(v, list) else (type(v).__name__, 0)
            except ValueError as e:
                got, ln = ("not_initialised" if "Could not compute confidence intervals" in str(e) else "ValueError " + str(e)[:60]), 0
            except Exception as e:
                got, ln = f"{type(e).__name__} {str(e)[:60]}", 0
            if (got, ln) != (st["answer"], st["len"]):
                notes.append(f"bootargs {tag}: {st['op']} answered {got} (len {ln}), BootArgs.tla says {st['answer']} (len {st['len']})")
            elif got == "list" and st["op"] == "overall_ci" and ob["qs"] == "[0.9,0.1]":
                if not (float(v[0]["sel"]) >= float(v[1]["sel"])):
                    notes.append(f"bootargs {tag}: overall_ci entries are not in the order of the request (0.9 first)")
    return notes


def bootargs(ck):
    laws = "".join(f"INVARIANT {x}\n" for x in ("OnNeedsBoth", "OffMeansNothingAsked", "RejectedIsFinal", "OneEntryPerQuantile"))
    obs = ck.tlc("BootArgs", f"CONSTANTS Emit = TRUE\nSPECIFICATION Spec\n{laws}INVARIANT EmitInv\nCHECK_DEADLOCK FALSE\n",
                 "extension: bootstrap argument rules and *_ci availability", workers=1, timeout=600).emitted
    n = 0
    out = {}
    for ob, notes in zip(obs, pmap(_bootargs_one, obs, chunksize=8)):
        n += 1
        a = ob["hist"][0]["answer"]
        out[a] = out.get(a, 0) + 1
        for t in notes:
            ck.note_drift("[extension BootArgs.tla] " + t)
    ck.extra["extension_bootargs_histories"] = n
    ck.extra["extension_bootargs_construction_outcomes"] = out


def _backend_one(ob):
    """Backend.tla state -> real _validate_backend with the installation state faked through sys.modules"""
    import sys
    import types
    import torch
    from sklearn.linear_model import LinearRegression
    from fairlearn.adversarial import AdversarialFairnessClassifier
    from fairlearn.adversarial._pytorch_engine import PytorchEngine

    class FakeKerasModel:
        pass

    def model(kind):
        return [3] if kind == "list" else torch.nn.Linear(1, 1) if kind == "torch" else FakeKerasModel() if kind == "keras" else LinearRegression()

    class MyEngine(PytorchEngine):
        pass

    saved = {k: sys.modules.get(k, "absent") for k in ("torch.nn", "keras")}
    try:
        if not ob["torch_installed"]:
            sys.modules["torch.nn"] = None             # `from torch.nn import Module` now raises ImportError
        if ob["tf_installed"]:
            fake = types.ModuleType("keras"); fake.Model = FakeKerasModel
            sys.modules["keras"] = fake
        else:
            sys.modules["keras"] = None
        est = AdversarialFairnessClassifier(backend=MyEngine if ob["backend"] == "engine" else ob["backend"], predictor_model=model(ob["pk"]), adversary_model=model(ob["ak"]))
        try:
            est._validate_backend()
            b = est.backend_
            got = "given" if b is MyEngine else b.__name__
        except ValueError as e:
            got = "ValueError_backend" if "'backend'" in str(e) else "ValueError_models" if "predictor_model and adversary_model" in str(e) else "ValueError " + str(e)[:60]
        except RuntimeError as e:
            got = "RuntimeError_import" if "Please make sure to install" in str(e) else "RuntimeError " + str(e)[:60]
        except Exception as e:
            got = f"{type(e).__name__} {str(e)[:60]}"
    finally:
        for k, v in saved.items():
            if v == "absent":
                sys.modules.pop(k, None)
            else:
                sys.modules[k] = v
    if got != ob["outcome"]:
        return [f"backend {json.dumps({k: ob[k] for k in ('backend', 'torch_installed', 'tf_installed', 'pk', 'ak')})}: '{got}', Backend.tla says '{ob['outcome']}'"]
    return []


def backend(ck):
    laws = "".join(f"INVARIANT {x}\n" for x in ("AutoPrefersTorch", "ListsWorkWithAnythingInstalled", "ExplicitNeverFallsBack", "EngineNeedsItsLibrary", "MixedModelsRejected"))
    obs = ck.tlc("Backend", f"CONSTANTS Emit = TRUE\nSPECIFICATION Spec\n{laws}INVARIANT EmitInv\nCHECK_DEADLOCK FALSE\n",
                 "extension: backend selection of the adversarial estimators", workers=1, timeout=600).emitted
    n = 0
    out = {}
    for ob, notes in zip(obs, pmap(_backend_one, obs, chunksize=8)):
        n += 1
        out[ob["outcome"]] = out.get(ob["outcome"], 0) + 1
        for t in notes:
            ck.note_drift("[extension Backend.tla] " + t)
    ck.extra["extension_backend_cases"] = n
    ck.extra["extension_backend_outcomes"] = out
