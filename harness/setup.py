"""setup_cmd: parse every specification with SANY and byte-compile the harness (offline)."""
import compileall
import glob
import os
import subprocess
import sys
from concurrent.futures import ThreadPoolExecutor

from harness.core import SPEC, TLA_CP, VERIF


def _sany(path):
    p = subprocess.run(["java", "-cp", TLA_CP, "tla2sany.SANY", path], capture_output=True, text=True, cwd=SPEC)
    bad = p.returncode != 0 or "error" in p.stdout.lower().replace("semantic errors:\n\n", "")
    ok = ("Semantic processing of module" in p.stdout) and ("*** Errors" not in p.stdout) and ("Fatal errors" not in p.stdout) and p.returncode == 0
    return path, ok, p.stdout[-1500:]


def main():
    specs = sorted(glob.glob(os.path.join(SPEC, "*.tla")))
    rc = 0
    with ThreadPoolExecutor(8) as ex:
        for path, ok, out in ex.map(_sany, specs):
            print(("ok   " if ok else "FAIL ") + os.path.relpath(path, VERIF))
            if not ok:
                print(out)
                rc = 2
    if not compileall.compile_dir(os.path.join(VERIF, "harness"), quiet=1):
        rc = 2
    os.makedirs(os.path.join(VERIF, "evidence", "replay"), exist_ok=True)
    try:
        import fairlearn  # noqa
        print("fairlearn importable from", os.path.dirname(fairlearn.__file__))
    except Exception as e:
        print("cannot import fairlearn:", e)
        rc = 2
    return rc


if __name__ == "__main__":
    sys.exit(main())
