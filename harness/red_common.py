"""Shared pieces for the reduction checks (C08, C09, C10): exact learners and payoff-table access."""
import json
import random
from fractions import Fraction

import numpy as np
from sklearn.base import BaseEstimator

from harness.core import R
from harness import mom_common as M


class ExactLearner(BaseEstimator):
    """Exact cost-sensitive learner over H = {feature value -> label}: per feature value the
    weighted vote of the (reduced) labels.  X[:,1] holds the feature value.  Records every call."""
    calls = None

    def __init__(self, tie=0):
        self.tie = tie

    def fit(self, X, y, sample_weight=None):
        X = np.asarray(X)
        y = np.asarray(y)
        w = np.ones(len(y)) if sample_weight is None else np.asarray(sample_weight, dtype=float)
        if ExactLearner.calls is not None:
            ExactLearner.calls.append((y.tolist(), w.tolist()))
        self.table_ = {}
        for v in np.unique(X[:, 1]):
            m = X[:, 1] == v
            w1 = w[m & (y == 1)].sum()
            w0 = w[m & (y == 0)].sum()
            self.table_[float(v)] = 1 if w1 > w0 else (0 if w1 < w0 else self.tie)
        return self

    def predict(self, X):
        X = np.asarray(X)
        return np.array([self.table_.get(float(v), 0) for v in X[:, 1]])

    def predict_proba(self, X):
        p = self.predict(X).astype(float)
        return np.stack([1 - p, p], axis=1)


class GridRegressor(BaseEstimator):
    """Exact learner for loss moments over H = {feature value -> value in `values`}: per feature
    value the candidate minimising the weighted loss."""
    def __init__(self, values=(0.0, 0.5, 1.0), loss="square"):
        self.values = values
        self.loss = loss

    def fit(self, X, y, sample_weight=None):
        X = np.asarray(X)
        y = np.asarray(y, dtype=float)
        w = np.ones(len(y)) if sample_weight is None else np.asarray(sample_weight, dtype=float)
        self.table_ = {}
        for v in np.unique(X[:, 1]):
            m = X[:, 1] == v
            best = None
            for c in self.values:
                l = ((y[m] - c) ** 2 if self.loss == "square" else np.abs(y[m] - c))
                cost = float(np.dot(w[m], l))
                if best is None or cost < best[0] - 1e-15:
                    best = (cost, c)
            self.table_[float(v)] = best[1]
        return self

    def predict(self, X):
        X = np.asarray(X)
        return np.array([self.table_.get(float(v), self.values[0]) for v in X[:, 1]], dtype=float)


class WMean(BaseEstimator):
    """exact least-squares learner over H = {feature value -> real}: per feature value the weighted mean of y"""
    def fit(self, X, y, sample_weight=None):
        X = np.asarray(X)
        y = np.asarray(y, dtype=float)
        w = np.ones(len(y)) if sample_weight is None else np.asarray(sample_weight, dtype=float)
        self.table_ = {}
        for v in np.unique(X[:, 1]):
            m = X[:, 1] == v
            sw = w[m].sum()
            self.table_[float(v)] = float((w[m] * y[m]).sum() / sw) if sw > 0 else 0.0
        return self

    def predict(self, X):
        X = np.asarray(X)
        return np.array([self.table_.get(float(v), 0.0) for v in X[:, 1]], dtype=float)


def hyp_of(predictor, F):
    """which hypothesis (tuple over feature values 0..F-1) a fitted predictor is"""
    Xq = np.array([[0, f] for f in range(F)], dtype=float)
    return tuple(int(v) for v in np.asarray(predictor.predict(Xq)).reshape(-1))


class Table:
    """exact payoff table of one TLC state for one (moment kind, ratio)"""
    def __init__(self, case, kind, rq, costs=None):
        self.case = case
        self.F = case["F"]
        self.hyps = [tuple(h) for h in case["hyps"]]
        self.err = [R(x) for x in case["err"]]
        if costs is not None:       # cost-sensitive objective ErrorRate(costs={"fp": a, "fn": b})
            ce = [c for c in case["cost_err"] if list(c["costs"]) == list(costs)][0]
            self.err = [R(x) for x in ce["err"]]
        mo = [m for m in case["moments"] if m["kind"] == kind][0]
        self.index = mo["index"]
        self.keys = [M.index_key(e, case["S"] > 1) for e in mo["index"]]
        self.gamma = [[R(x) for x in row] for row in mo["gamma"][rq]]      # [hyp][index entry]
        self.pos = {h: i for i, h in enumerate(self.hyps)}

    def err_of(self, h):
        return self.err[self.pos[h]]

    def gamma_of(self, h):
        return self.gamma[self.pos[h]]

    def mix(self, weights):
        """error and gamma vector of a distribution {hyp: weight}"""
        e = sum(Fraction(w) * self.err_of(h) for h, w in weights.items())
        g = [sum(Fraction(w) * self.gamma_of(h)[k] for h, w in weights.items()) for k in range(len(self.keys))]
        return e, g
