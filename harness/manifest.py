"""Regenerates /verif/MANIFEST.json from the table below (`python harness/manifest.py`)."""
import json
import os
import subprocess

VERIF = os.path.dirname(os.path.dirname(os.path.abspath(__file__)))

# property id -> (engine spec list, technique, level text, level note, design ref)
CHECKS = {
    "C14": (["Metrics.tla", "Rat.tla"],
            "TLC exhaustive enumeration of all weighted binary vectors (Metrics.tla laws) + replay of every TLC state into fairlearn.metrics under every encoding",
            "TLC checks range / complement / class-swap laws on every vector up to the bound and emits exact rational expected values; every emitted state is executed against the seven base metrics under 10 encodings, weighted and unweighted, two row orders; scalar-ness asserted",
            "sklearn's confusion_matrix is exercised through the public functions, not trusted; vectors longer than the bound only by simulation (thorough)", "5/C14"),
    "C02": (["Frame.tla", "FrameCalls.tla", "Rat.tla"],  # noqa
            "TLC exhaustive enumeration of small datasets (Frame.tla aggregate laws) + replay of every TLC state into MetricFrame, all aggregates x methods x errors",
            "TLC shows the 'hence' inequalities follow from the aggregate definitions on every dataset up to the bound and emits the exact rational value of group_min/max, difference, ratio for both methods; each state is replayed into MetricFrame (dict and callable form, weighted/unweighted, with/without control feature, canonical and shuffled row order) and every aggregate for both errors settings is compared; inequalities re-evaluated on the code's floats",
            "10 scalar metrics incl. a signed one (smean) and one that is NaN on non-empty groups (precn); one sensitive + at most one control feature, and the same rows read as two sensitive features (product index with NaN cells); further layouts are C01's spec", "5/C02"),
    "C03": (["Frame.tla", "Derived.tla", "Rat.tla"],
            "TLC exhaustive enumeration of all binary datasets with 1..4 groups up to the size bound + replay of every state into all named / generated fairness metrics",
            "every dataset (groups of size 1, empty denominators included) up to the bound is a TLC state carrying the exact first-principles value of DP/EOpp/EOdds x difference/ratio x method x agg and of each generated metric; every public function is called on each state with and without sample_weight",
            "roc_auc/r2/f1/balanced-accuracy/log-loss variants and make_derived_metric are checked for equivalence with the MetricFrame call (plus a first-principles value for a custom weighted metric); equalized_odds_ratio not compared when a component ratio is 0/0", "5/C03"),
    "C11": (["Metrics.tla", "Frame.tla", "Rat.tla"],
            "TLC-checked multiplicity laws on the definitions (Expand / Scale / AllOnes) + the same three metamorphic pairs executed on the code for every TLC state",
            "laws LawExpand, LawExpandUnit, LawScale, LawAllOnes, LawUnitWeights hold on every enumerated dataset; for each state the code is run weighted, expanded with unit weights, expanded without weights, with real scalings (0.5, pi, 3) and with weights omitted, for the six weighted base metrics, MetricFrame cells/aggregates per group and four named fairness metrics; results compared with each other and with the spec's exact value",
            "integer weights 1..3 in the enumeration; real-valued scalings only as multiples of those", "5/C11"),
    "C01": (["FrameCells.tla", "Naming.tla"],
            "TLC exhaustive enumeration of feature-tuple multisets per layout (FrameCells.tla: cells as row sets, index = product of observed values) + replay with a row-set fingerprint metric",
            "the specification defines each by_group / overall entry by the set of row positions it must be evaluated on; TLC checks partition / index-size laws and emits every state for 8 layouts (1..3 sensitive x 0..2 control features); the replay makes the code report, per cell, exactly which rows and which sliced sample-parameter rows its metric saw (y_true_i = 2^i fingerprints), compares index, names, NaN for empty combinations, and three real metrics against the metric called directly on the specified row set",
            "fingerprints exact for <= 26 rows; metric callables are scalar valued as the property states", "5/C01"),
    "C04": (["Threshold.tla", "Dispatch.tla", "Rat.tla"],
            "TLC exhaustive enumeration of all Valid (group,label,score-level) multisets (Threshold.tla; p_ignore / hull laws) + ThresholdOptimizer.fit on every state x configuration, per-group expected constrained metric from _pmf_predict",
            "every dataset in which each group has both labels up to the size bound is a TLC state; TLC checks that the rule construction equalises (LawPIgnore) and that the code's hull algorithm (transcribed) equals the algorithm-free hull; each state is fitted for constraints x objectives x flip x grid sizes (plus grid_size=1000) under 4 materialisations (row order, score re-mapping) and the spread of the constrained metric over groups must be <= 1e-9",
            "score values matter only through order/ties: levels are materialised as level/(L-1), random monotone floats, nearly tied values, large magnitudes and zero-centred integers; pass-through estimator (prefit True/False alternating) with decoy predict_proba / decision_function while predict_method=predict is requested; Dispatch.tla extension reported at refinement tier", "5/C04"),
    "C05": (["Threshold.tla", "Rat.tla"],
            "TLC computes the exact optimum OptSimple/OptEO from an algorithm-independent hull definition for every state x configuration; the objective realised by the fitted ThresholdOptimizer must equal it",
            "the specification's optimum is the maximum over the grid of the group-frequency-weighted upper hull (pointwise-lowest ROC hull for equalized odds), defined as a max over exact points and straddling pairs, so it is a reference independent of the code's chain/interpolation algorithm (whose transcription TLC proves equivalent); realised objective from _pmf_predict compared at 1e-9; never below the best constant classifier; grid_size=1000 dominates coarser nested grids",
            "linearity of the per-group metrics in the confusion counts (randomisation spans the convex hull) is stated in the spec, not proved", "5/C05"),
    "C06": (["Moments.tla", "Rat.tla"],
            "TLC exhaustive enumeration of (group,label,stratum) multisets (Moments.tla: events, index, Gamma; laws PairedSigns, EventMembership, Affine, RatioOne) + load_data/gamma/bound replay of every state for 5 moments x 3 bounds",
            "the index set (exactly one +/- entry per occurring (event, group) pair, no entry for rows outside the conditioned label class), gamma on zero/unit/soft/hard predictors via the TLC-proved affine form, bound(), BoundedGroupLoss (3 losses, 2 clip ranges), ErrorRate (4 cost pairs) are compared with exact rationals on every state; r = 1 '+' entries cross-checked against the real MetricFrame",
            "states with a single row are skipped (the reductions' input validation rejects them; outside the property's 2..4 groups); event names compared literally", "5/C06"),
    "C07": (["Moments.tla", "Rat.tla"],
            "TLC checks the reduction identity (IdentityOK, LossIdentity), ProjectOK and ReductionExact (argmin equality over the whole hypothesis class and a multiplier grid) on the specification; signed_weights / project_lambda / _call_oracle of the code replayed on every state",
            "signed_weights for every unit multiplier equals the exact rational vector; additivity with random lambda; the identity lambda.gamma(h)-lambda.gamma(h') = -(1/n) sum w_i (h_i-h'_i) re-evaluated on the code's own gamma and weights with soft predictors; project_lambda non-negative and Lagrangian-non-decreasing; loss-moment identity and weights lambda_g/P(g); ErrorRate objective weights; the labels 1[w>0] and weights n|w|/sum|w| that _Lagrangian._call_oracle hands to the learner are recorded and compared",
            "multiplier grid in TLC: entries 0..2 with at most two non-zero components (the identities are linear in lambda); empty constraint index and all-zero weights excluded as preconditions", "5/C07"),
    "C09": (["Grid.tla", "Moments.tla", "Rat.tla"],
            "TLC checks the transcribed grid generator (Grid.tla: count, distinctness, L1 bound, minimal n_units, injective basis map, selection rule) for every dim x sign pattern x grid_size; real GridSearch.fit with an exact learner is checked against TLC's exact payoff table of the whole hypothesis class",
            "property tier: lambda_vecs_ has grid_size distinct non-negative columns with L1 <= grid_limit; each predictor attains min_h error + lambda.gamma on the exact table (weighted group loss for BoundedGroupLoss); objectives_/gammas_ equal the table entries of the predictor's actual predictions; learner calls carry the relabel/reweight of their column in column order; best_idx_ minimises the trade-off; predict/predict_proba delegate. Refinement tier: the real _GridGenerator's integer lattice equals Grid.tla's for every enumerated configuration",
            "float multipliers: inequalities in float64 (1e-9) over exact table data; datasets where no event is shared by two groups (no free constraint direction) and grid points with all-zero weights are skipped as preconditions and listed in the evidence", "5/C09"),
    "C08": (["Game.tla", "EG.tla", "EGInd.tla", "EGTrace.tla", "Moments.tla"],
            "Apalache proves the stop rule's certification clauses (early stop only after an iteration with gap < nu and t >= 5; minimum gap < nu at an early stop; no overrun) inductive for unbounded max_iter / nu / gap values (EGInd.tla; the mapped invariant IndMapped is also checked by TLC on EG.tla and along every validated trace); TLC proves the certificate => guarantees theorem on a bounded family of rational games (Game.tla) and the early-stop/selection invariants on all bounded protocols (EG.tla); real EG fits with an exact learner are checked against TLC's exact payoff tables and every recorded iteration trace is validated by TLC against EGTrace.tla",
            "for each fit: weights_ is a distribution over predictors_; the TRUE duality gap of the returned Q against the multiplier recorded for the returned iteration (min over the whole hypothesis class on the exact table) is <= best_gap_; error(Q) <= OPT + 2 best_gap_ (OPT by LP over the table) and each constraint <= bound + (1+2 best_gap_)/B when feasible; stopping before max_iter implies best_gap_ < nu; the trace (oracle results, Q_EG = Qsum/(t+1) exactly, EG/LP source by gap comparison, stop rule, last-minimum selection) is accepted by the trace spec",
            "float64 inequalities (slack 1e-7) over exact table data; gaps as dense ranks; exhaustive small tables plus TLC-simulated larger ones (N<=12) for long runs without the LP step; fits hitting the 0/0 weight normalisation are skipped and listed; cost-sensitive objective at refinement tier", "5/C08"),
    "C10": (["Threshold.tla", "EG.tla", "Moments.tla", "Interp.tla"],
            "models fitted on TLC-enumerated datasets (Threshold.tla Valid states; Moments.tla payoff-table states) are queried: pmf validity, dependence on (score, group) only, monotonicity without flip, EG pmf == mixture of predictors_ by id, support/determinism over seeds; frequency clause by a fixed-seed 6-sigma test",
            "TLA+ states validity / functional dependence / id-alignment / support and determinism; every fitted ThresholdOptimizer (seeded configurations per Valid dataset) and every EG model of the C08 run is checked on scrambled query sets with duplicates; regression (BoundedGroupLoss, runs without the LP step whose weights_ index is not in id order) draws are matched to the predictors' own weights by output value",
            "frequencies: 3000 replicated rows per query point, 6 sigma, fixed seeds (statistical clause outside TLC); label = [p >= U] is refinement tier only", "5/C10"),
    "C13": (["Merge.tla"],
            "TLC checks Unmerge(Merge(t)) = t and injectivity for every tuple over an alphabet containing the separator and the escape character, and finds colliding twins under the wrong merges; _merge_columns replayed on every tuple; twin tables pushed through moments, MetricFrame, EG, GridSearch, ThresholdOptimizer",
            "property tier: _merge_columns is collision-free on every enumerated tuple and the partition it induces equals the tuple partition (= MetricFrame's non-empty intersectional groups); moments / EG / GridSearch / ThresholdOptimizer (fit and predict-time lookup on permuted subsets) behave exactly as with canonical group ids. Refinement tier: exact merged string == Merge.tla",
            "strings up to length 2 (2 columns) / 1 (3 columns) in quick, longer in thorough; values compared as strings", "5/C13"),
    "C12": (["Present.tla", "Frame.tla"],
            "TLC enumerates the product of presentations (container kind x index-label scheme per argument, Present.tla) with the positional meaning and the wrong label-aligned meaning (discriminating flag); each presentation is applied to TLC-simulated 8-row datasets and run through MetricFrame, fairness metrics, moments, EG, GridSearch, ThresholdOptimizer against the canonical run",
            "results must be identical to the all-list run (1e-12 for metrics, exact for estimators incl. _pmf_predict / predict with a fixed seed); joint row permutations with surviving original labels and order-reversing group renamings on top; the evidence counts the discriminating presentations replayed (containers whose labels would change the data if aligned on)",
            "quick samples 1500 of 20736 four-argument and 260 of 1728 three-argument presentations (full product in thorough); X only as ndarray/DataFrame", "5/C12"),
    "C15": (["CorrRem.tla", "Rat.tla"],
            "TLC exhaustive enumeration of small integer matrices (CorrRem.tla: exact least-squares residual with rank cases, alpha blend, learned affine map; laws ZeroCov, TransformIsFitTransform) + fit_transform/transform replay of every state; direct property checks on seeded real-valued matrices",
            "every matrix (1..2 sensitive + 1..2 other columns, constant and collinear sensitive columns included) is replayed as ndarray (positional ids) and DataFrame (named ids) with shuffled rows, a seeded column layout, alpha in {0, 1/2, 1} and a new-row transform against exact rationals; on 300 (quick) / 4000 real matrices with 1..4 sensitive columns zero covariance, the alpha formula, affinity and training-consistency of transform are checked on the code's output",
            "exact spec covers K <= 2 sensitive columns; K = 3, 4 only by the real-valued direct checks", "5/C15"),
    "C16": (["AdvUpdate.tla", "AdvUpdateInd.tla", "Backend.tla", "Rat.tla"],
            "TLC enumerates integer gradient tensors and alpha (AdvUpdate.tla: orthogonality law, zero-gradient law, states where a row-pair reading would differ); Apalache proves the orthogonality law for arbitrary integer entries of a 4-entry tensor (AdvUpdateInd.tla); each state's gradients are forced into the real PytorchEngine.train_step through linear losses (backend= subclass overriding get_loss) and the SGD parameter change compared with the exact rational update; real networks checked against autograd-recomputed updates",
            "forced cases: every predictor tensor entry equals -lr * g of the specification (2e-5) and the adversary follows the plain gradient; real networks (0-2 hidden layers, widths 1-6, binary/multiclass/continuous targets and sensitive features, demographic parity and equalized odds, fresh initialisation): every predictor and adversary tensor after one step equals the documented update computed from autograd gradients on a deep copy",
            "PyTorch engine only (tensorflow is not installed in this sandbox); float32 tolerance 2e-5", "5/C16"),
    "C17": (["AdvSchedule.tla", "AdvScheduleInd.tla", "AdvTrace.tla", "AdvPredict.tla", "Encode.tla"],
            "TLC model-checks the step schedule machine for every bounded configuration (AdvSchedule.tla) and emits its behaviours; Apalache proves the schedule invariant (step count, callback count, slice laws) inductive for unbounded n / batch size / epochs / max_iter (AdvScheduleInd.tla; the mapped invariant IndMapped is also checked by TLC); each behaviour is replayed into the real estimator (recording PytorchEngine subclass + recording callbacks) and followed by the equivalent partial_fit sequence; larger recorded executions are validated by TLC against AdvTrace.tla; AdvPredict.tla fixes the label-space mapping, replayed with forced raw outputs",
            "event sequence (slice bounds, step numbers, callback numbers per callback, stop) and n_iter_ equal the specification's for every configuration incl. batch_size -1 / not dividing n, epochs -1, max_iter, 1-2 callbacks; parameters after fit are torch.equal to those after partial_fit on the same slices; predict returns the positive class iff raw >= 1/2, the first arg-max class, the raw value, for 7 binary and 3 multiclass label encodings",
            "PyTorch backend only; shuffle=False as the property states", "5/C17"),
    "C18": (["Bootstrap.tla", "BootTrace.tla", "BootArgs.tla"],
            "TLC checks the quantile laws (monotone in the level, constant metric, range, enclosure of the mean) on all bounded statistic sequences (Bootstrap.tla); every recorded bootstrap call stream of real MetricFrames (recording metric logging the row-id multiset of each call) is validated by TLC against BootTrace.tla",
            "per trace: the call stream splits into passes of exactly n rows (point estimate, then per resample an overall and a by-group pass), exactly n_boot resamples of n ids from the data, by-group calls hold one group each and partition the resample, resamples repeat rows and differ from each other, and the reported by_group quantiles of count equal the specification's quantile of the resample group sizes exactly; the harness checks list length, type/columns/index, ordering, and equality across two runs for all ten *_ci results, overall count = n, constant metric, positive width and enclosure of the resampling mean",
            "dyadic quantile levels (k/8) so that reported values are exact rationals; the width / enclosure clause is statistical (fixed seeds)", "5/C18"),
    "C19": (["Lifecycle.tla", "LifeTrace.tla"],
            "TLC enumerates every call sequence over fit(D1), fit(D2), predict(seed), pickle, clone per estimator kind (Lifecycle.tla: model determined by the last fit, parameters never change, predict is pure); each behaviour is executed on the six estimator classes for 13 configurations and the recorded history is validated by TLC against LifeTrace.tla",
            "per event: fit returns the estimator itself, constructor parameters reported by get_params unchanged, NotFittedError exactly when unfitted, repeated predict with one seed repeats the answer, and the fingerprint of the predictions after any history equals that of a FRESH identically configured estimator fitted on the same data (hence refit == fresh fit, pickle round trip and clone behave as specified)",
            "sequence length 3 in quick, 4 in thorough; model equality through an exact fingerprint of predictions on a fixed query set; D8 (nu overwritten by fit) is a recorded known finding", "5/C19"),
    "C20": (["Validate.tla"],
            "TLC enumerates the table of calls (entry point x argument x accepted container x defect, Validate.tla) with the guard MustReject and table-completeness invariants; every defective call is materialised on seeded random data with the defect at a seeded position and must raise (NotFittedError by type for prediction before fit); its defect-free twin must be accepted first",
            "503 table entries: length defects (-2, -1, +1, +3 rows at random positions) for every per-row argument of MetricFrame, the fairness metrics, the six classification moments, ExponentiatedGradient/GridSearch/ThresholdOptimizer fit and ThresholdOptimizer.predict in list/ndarray/Series/DataFrame form; labels outside {0,1} (2, -1/1, 0.5); missing sensitive feature; degenerate group; control features / unsupported constraint-objective pairs for ThresholdOptimizer; bound, cost, weight and selection-rule parameters; duplicate / non-string feature names; missing CorrelationRemover column; seven predict-before-fit calls",
            "any exception type counts as rejection; twins that are themselves rejected would be listed as skipped (none on the current tree)", "5/C20"),
}

PENDING_REASON = "check under construction in this session (DESIGN.md section 5 describes the planned TLA+ spec and binding); not yet claimed"


def main():
    props = [json.loads(l) for l in open(os.path.join(VERIF, "properties.jsonl"))]
    try:
        hooks = subprocess.run(["git", "-C", "/repo", "log", "--format=%H %s"], capture_output=True, text=True).stdout.splitlines()
        hook_commits = [l.split()[0] for l in hooks if l.split(" ", 1)[1].startswith("verif hooks")]
    except Exception:
        hook_commits = []
    checks = []
    engines = {}
    for pid, (specs, tech, text, note, ref) in sorted(CHECKS.items()):
        checks.append({
            "property_id": pid,
            "quick_cmd": f"./check {pid} --tier quick",
            "thorough_cmd": f"./check {pid} --tier thorough",
            "evidence_file": f"/verif/evidence/{pid}.json",
            "replay_cmd_template": f"./check {pid} --replay {{path}}",
            "engine": specs[0],
            "level_claimed": {"category": "model_checking", "text": text, "design_ref": f"DESIGN.md section {ref}"},
            "level_note": note,
            "technique": tech,
        })
        for s in specs:
            engines.setdefault(s, []).append(pid)
    m = {
        "version": 1,
        "setup_cmd": "./check setup",
        "hooks": {
            "guard": "FAIRLEARN_VERIF_TRACE",
            "enable": "checks export FAIRLEARN_VERIF_TRACE=1 themselves; /repo is an editable install, so the current working tree is what runs",
            "baseline_off_cmd": "/venv/bin/python harness/baseline_off.py",
            "source_commits": hook_commits,
            "add_only": True,
        },
        "engines": [{"name": s, "path": f"/verif/spec/{s}", "serves_properties": sorted(set(p)),
                     "kind_free_text": "TLA+ specification checked with TLC; bound to the code by replay / trace validation"}
                    for s, p in sorted(engines.items())],
        "checks": checks,
        "not_applicable": [{"property_id": p["id"], "reason": PENDING_REASON} for p in props if p["id"] not in CHECKS],
        "notes": "TLA+ specifications in spec/, conformance harness in harness/, known findings in known_findings.json; see DESIGN.md",
    }
    with open(os.path.join(VERIF, "MANIFEST.json"), "w") as f:
        json.dump(m, f, indent=1)
    try:
        import jsonschema
        jsonschema.validate(m, json.load(open("/root/.vp/MANIFEST.schema.json")))
        print("MANIFEST.json valid;", len(checks), "checks")
    except ImportError:
        print("MANIFEST.json written (jsonschema not available)")


if __name__ == "__main__":
    main()
