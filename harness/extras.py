"""Specification growth beyond the twenty listed properties.  Every mismatch found here is
reported at the REFINEMENT tier (NOTE spec_drift in the evidence of the hosting check), never as
a violation of a listed property."""
import json

import numpy as np
from sklearn.base import BaseEstimator

from harness.core import pmap


def _dispatch_one(ob):
    """Dispatch.tla state -> real ThresholdOptimizer with a fake estimator whose methods return distinguishable scores"""
    from fairlearn.postprocessing import ThresholdOptimizer
    calls = []
    caps = [m for m, b in ob["caps"].items() if b]
    X = np.array([[0.1], [0.9], [0.4], [0.6], [0.2], [0.8]]); y = [0, 1, 0, 1, 1, 0]; g = ["a", "a", "a", "b", "b", "b"]

    class Fake(BaseEstimator):
        def __init__(self, tag=0):
            self.tag = tag

        def fit(self, X, y, **kw):
            calls.append(("fit", id(self)))
            self.fitted_ = True
            return self
    # scores: predict_proba -> second column = x ; decision_function -> 1 - x ; predict -> (x > 0.5)
    if "predict_proba" in caps:
        Fake.predict_proba = lambda self, X: (calls.append(("predict_proba", id(self))), np.c_[1 - np.asarray(X)[:, 0], np.asarray(X)[:, 0]])[1]
    if "decision_function" in caps:
        Fake.decision_function = lambda self, X: (calls.append(("decision_function", id(self))), 1 - np.asarray(X)[:, 0])[1]
    if "predict" in caps:
        Fake.predict = lambda self, X: (calls.append(("predict", id(self))), (np.asarray(X)[:, 0] > 0.5) * 1.0)[1]
    est = Fake()
    if ob["prefit"]:
        est.fitted_ = True
    notes = []
    try:
        to = ThresholdOptimizer(estimator=est, prefit=ob["prefit"], predict_method=ob["method"], constraints="demographic_parity", grid_size=10)
        to.fit(X, y, sensitive_features=g)
        failed = False
    except AttributeError:
        failed = True
    except Exception as e:
        return [f"dispatch {ob['method']} / caps {caps}: unexpected {type(e).__name__}: {e}"]
    if failed != ob["fails"]:
        return [f"dispatch: predict_method={ob['method']} with methods {caps}: {'failed' if failed else 'did not fail'}, Dispatch.tla says fails={ob['fails']}"]
    if failed:
        return notes
    used = [c[0] for c in calls if c[0] != "fit"]
    if set(used) != {ob["chosen"]}:
        notes.append(f"dispatch: predict_method={ob['method']} with methods {caps} used {sorted(set(used))}, Dispatch.tla says {ob['chosen']}")
    fits = [c for c in calls if c[0] == "fit"]
    if ob["fits_a_clone"]:
        if len(fits) != 1 or fits[0][1] == id(est) or hasattr(est, "fitted_"):
            notes.append("prefit=False: expected exactly one fit of a CLONE and the original estimator left untouched")
    else:
        if fits or to.estimator_ is not est:
            notes.append("prefit=True: the given estimator must be used as it is (no fit, no clone)")
    # the scores really come from the chosen method: with decision_function the order of the scores is reversed
    p = to._pmf_predict(np.array([[0.05], [0.95]]), sensitive_features=["a", "a"])[:, 1]
    if ob["chosen"] == "decision_function" and p[0] < p[1] - 1e-12:
        notes.append("scores do not come from decision_function")
    if ob["chosen"] == "predict_proba" and p[0] > p[1] + 1e-12:
        notes.append("scores do not come from the second predict_proba column")
    return notes


def dispatch(ck):
    obs = ck.tlc("Dispatch", "CONSTANTS Emit = TRUE\nSPECIFICATION Spec\nINVARIANT AutoNeverFails\nINVARIANT AutoPrefersProba\nINVARIANT EmitInv\nCHECK_DEADLOCK FALSE\n",
                 "extension: score dispatch / prefit semantics", workers=1, timeout=600).emitted
    n = 0
    for notes in pmap(_dispatch_one, obs, chunksize=2):
        n += 1
        for t in notes:
            ck.note_drift("[extension Dispatch.tla] " + t)
    ck.extra["extension_dispatch_cases"] = n


def _grid_opt(job):
    """user-supplied grid is used verbatim; grid_offset is added to every generated multiplier vector"""
    case, conf, seed = job
    import pandas as pd
    import fairlearn.reductions as red
    from harness import mom_common as M
    from harness import red_common as RC
    kind, rq, gsize, glimit, cw, which = conf
    notes = []
    d = M.materialise(case, seed, which)
    ratio = case["ratios"][rq]
    try:
        base = red.GridSearch(RC.ExactLearner(), M.make_moment(kind, ratio), grid_size=gsize, grid_limit=glimit, constraint_weight=cw)
        base.fit(d["X"], np.array(d["y"]), sensitive_features=d["g"])
        lv = base.lambda_vecs_
        # (1) the same vectors supplied by the user, in reversed column order
        user = lv[lv.columns[::-1]].copy()
        user.columns = range(len(user.columns))
        g1 = red.GridSearch(RC.ExactLearner(), M.make_moment(kind, ratio), grid=user, constraint_weight=cw)
        g1.fit(d["X"], np.array(d["y"]), sensitive_features=d["g"])
        if not np.array_equal(g1.lambda_vecs_.values, user.values):
            notes.append("user-supplied grid is not used verbatim")
        h0 = [RC.hyp_of(p, case["F"]) for p in base.predictors_][::-1]
        h1 = [RC.hyp_of(p, case["F"]) for p in g1.predictors_]
        if [round(float(x), 12) for x in base.objectives_[::-1]] != [round(float(x), 12) for x in g1.objectives_] or h0 != h1:
            notes.append("user-supplied grid: predictors / objectives differ from those of the same multiplier vectors generated internally")
        # (2) offset
        off = pd.Series(np.linspace(0.0, 0.3, len(lv.index)), index=lv.index)
        g2 = red.GridSearch(RC.ExactLearner(), M.make_moment(kind, ratio), grid_size=gsize, grid_limit=glimit, constraint_weight=cw, grid_offset=off)
        g2.fit(d["X"], np.array(d["y"]), sensitive_features=d["g"])
        if not np.allclose(g2.lambda_vecs_.values, lv.values + off.values.reshape(-1, 1), atol=1e-12):
            notes.append("grid_offset is not added to every generated multiplier vector")
    except Exception as e:
        if "non-zero number" in str(e) or "no event" in str(e) or isinstance(e, ZeroDivisionError):
            return []
        notes.append(f"grid options: {type(e).__name__}: {str(e)[:100]}")
    return notes


def grid_options(ck, jobs):
    n = 0
    for notes in pmap(_grid_opt, jobs, chunksize=2):
        n += 1
        for t in notes:
            ck.note_drift("[extension Grid.tla user grid / offset] " + t)
    ck.extra["extension_grid_option_cases"] = n
