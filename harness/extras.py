"""Specification growth beyond the twenty listed properties.  Every mismatch found here is
reported at the REFINEMENT tier (NOTE spec_drift in the evidence of the hosting check), never as
a violation of a listed property."""
import json

import numpy as np
from sklearn.base import BaseEstimator

from harness.core import pmap


def _dispatch_one(ob):
    """Dispatch.tla state -> real ThresholdOptimizer with a fake estimator whose methods return distinguishable scores"""
    from fairlearn.postprocessing import ThresholdOptimizer
    calls = []
    caps = [m for m, b in ob["caps"].items() if b]
    X = np.array([[0.1], [0.9], [0.4], [0.6], [0.2], [0.8]]); y = [0, 1, 0, 1, 1, 0]; g = ["a", "a", "a", "b", "b", "b"]

    class Fake(BaseEstimator):
        def __init__(self, tag=0):
            self.tag = tag

        def fit(self, X, y, **kw):
            calls.append(("fit", id(self)))
            self.fitted_ = True
            return self
    # scores: predict_proba -> second column = x ; decision_function -> 1 - x ; predict -> (x > 0.5)
    if "predict_proba" in caps:
        Fake.predict_proba = lambda self, X: (calls.append(("predict_proba", id(self))), np.c_[1 - np.asarray(X)[:, 0], np.asarray(X)[:, 0]])[1]
    if "decision_function" in caps:
        Fake.decision_function = lambda self, X: (calls.append(("decision_function", id(self))), 1 - np.asarray(X)[:, 0])[1]
    if "predict" in caps:
        Fake.predict = lambda self, X: (calls.append(("predict", id(self))), (np.asarray(X)[:, 0] > 0.5) * 1.0)[1]
    est = Fake()
    if ob["prefit"]:
        est.fitted_ = True
    notes = []
    try:
        to = ThresholdOptimizer(estimator=est, prefit=ob["prefit"], predict_method=ob["method"], constraints="demographic_parity", grid_size=10)
        to.fit(X, y, sensitive_features=g)
        failed = False
    except AttributeError:
        failed = True
    except Exception as e:
        return [f"dispatch {ob['method']} / caps {caps}: unexpected {type(e).__name__}: {e}"]
    if failed != ob["fails"]:
        return [f"dispatch: predict_method={ob['method']} with methods {caps}: {'failed' if failed else 'did not fail'}, Dispatch.tla says fails={ob['fails']}"]
    if failed:
        return notes
    used = [c[0] for c in calls if c[0] != "fit"]
    if set(used) != {ob["chosen"]}:
        notes.append(f"dispatch: predict_method={ob['method']} with methods {caps} used {sorted(set(used))}, Dispatch.tla says {ob['chosen']}")
    fits = [c for c in calls if c[0] == "fit"]
    if ob["fits_a_clone"]:
        if len(fits) != 1 or fits[0][1] == id(est) or hasattr(est, "fitted_"):
            notes.append("prefit=False: expected exactly one fit of a CLONE and the original estimator left untouched")
    else:
        if fits or to.estimator_ is not est:
            notes.append("prefit=True: the given estimator must be used as it is (no fit, no clone)")
    # the scores really come from the chosen method: with decision_function the order of the scores is reversed
    p = to._pmf_predict(np.array([[0.05], [0.95]]), sensitive_features=["a", "a"])[:, 1]
    if ob["chosen"] == "decision_function" and p[0] < p[1] - 1e-12:
        notes.append("scores do not come from decision_function")
    if ob["chosen"] == "predict_proba" and p[0] > p[1] + 1e-12:
        notes.append("scores do not come from the second predict_proba column")
    return notes


def dispatch(ck):
    obs = ck.tlc("Dispatch", "CONSTANTS Emit = TRUE\nSPECIFICATION Spec\nINVARIANT AutoNeverFails\nINVARIANT AutoPrefersProba\nINVARIANT EmitInv\nCHECK_DEADLOCK FALSE\n",
                 "extension: score dispatch / prefit semantics", workers=1, timeout=600).emitted
    n = 0
    for notes in pmap(_dispatch_one, obs, chunksize=2):
        n += 1
        for t in notes:
            ck.note_drift("[extension Dispatch.tla] " + t)
    ck.extra["extension_dispatch_cases"] = n


def _grid_opt(job):
    """user-supplied grid is used verbatim; grid_offset is added to every generated multiplier vector"""
    case, conf, seed = job
    import pandas as pd
    import fairlearn.reductions as red
    from harness import mom_common as M
    from harness import red_common as RC
    kind, rq, gsize, glimit, cw, which = conf
    notes = []
    d = M.materialise(case, seed, which)
    ratio = case["ratios"][rq]
    try:
        base = red.GridSearch(RC.ExactLearner(), M.make_moment(kind, ratio), grid_size=gsize, grid_limit=glimit, constraint_weight=cw)
        base.fit(d["X"], np.array(d["y"]), sensitive_features=d["g"])
        lv = base.lambda_vecs_
        # (1) the same vectors supplied by the user, in reversed column order
        user = lv[lv.columns[::-1]].copy()
        user.columns = range(len(user.columns))
        g1 = red.GridSearch(RC.ExactLearner(), M.make_moment(kind, ratio), grid=user, constraint_weight=cw)
        g1.fit(d["X"], np.array(d["y"]), sensitive_features=d["g"])
        if not np.array_equal(g1.lambda_vecs_.values, user.values):
            notes.append("user-supplied grid is not used verbatim")
        h0 = [RC.hyp_of(p, case["F"]) for p in base.predictors_][::-1]
        h1 = [RC.hyp_of(p, case["F"]) for p in g1.predictors_]
        if [round(float(x), 12) for x in base.objectives_[::-1]] != [round(float(x), 12) for x in g1.objectives_] or h0 != h1:
            notes.append("user-supplied grid: predictors / objectives differ from those of the same multiplier vectors generated internally")
        # (2) offset
        off = pd.Series(np.linspace(0.0, 0.3, len(lv.index)), index=lv.index)
        g2 = red.GridSearch(RC.ExactLearner(), M.make_moment(kind, ratio), grid_size=gsize, grid_limit=glimit, constraint_weight=cw, grid_offset=off)
        g2.fit(d["X"], np.array(d["y"]), sensitive_features=d["g"])
        if not np.allclose(g2.lambda_vecs_.values, lv.values + off.values.reshape(-1, 1), atol=1e-12):
            notes.append("grid_offset is not added to every generated multiplier vector")
    except Exception as e:
        if "non-zero number" in str(e) or "no event" in str(e) or isinstance(e, ZeroDivisionError):
            return []
        notes.append(f"grid options: {type(e).__name__}: {str(e)[:100]}")
    return notes


def grid_options(ck, jobs):
    n = 0
    for notes in pmap(_grid_opt, jobs, chunksize=2):
        n += 1
        for t in notes:
            ck.note_drift("[extension Grid.tla user grid / offset] " + t)
    ck.extra["extension_grid_option_cases"] = n


_NM_DATA = {"sf": [["x", "y", "x", "y", "x", "y"], ["p", "p", "q", "q", "p", "q"]], "cf": [["u", "u", "v", "u", "v", "v"], ["k", "m", "k", "m", "m", "k"]]}


def _nm_build(form, which):
    """Naming.tla form -> a real argument carrying the fixed data columns of `which`"""
    import pandas as pd
    cols = _NM_DATA[which]
    real = lambda nm: 7 if nm == "INT" else nm
    k = form["k"]
    if k == "absent":
        return None, 0
    if k == "list":
        return list(cols[0]), 1
    if k == "arr1":
        return np.array(cols[0]), 1
    if k == "arr2":
        return np.array(cols[:form["n"]]).T, form["n"]
    if k == "series":
        return pd.Series(cols[0], name=None if form["name"] == "NONE" else real(form["name"]), index=[5, 3, 9, 1, 0, 2]), 1
    names = [real(c) for c in form["cols"]]
    if k == "df":
        df = pd.DataFrame(np.array(cols[:len(names)]).T, index=[5, 3, 9, 1, 0, 2])
        df.columns = names
        return df, len(names)
    return {nm: cols[i] for i, nm in enumerate(names)}, len(names)


def _naming_one(ob):
    import warnings
    import fairlearn.metrics as fm
    y = [0, 1, 1, 0, 1, 1]; p = [0, 1, 0, 0, 1, 0]
    sf, ns = _nm_build(ob["sf"], "sf")
    cf, nc = _nm_build(ob["cf"], "cf")
    tag = f"sf={json.dumps(ob['sf'])} cf={json.dumps(ob['cf'])}"
    try:
        with warnings.catch_warnings():
            warnings.simplefilter("ignore")
            mf = fm.MetricFrame(metrics={"sel": fm.selection_rate, "cnt": fm.count}, y_true=y, y_pred=p, sensitive_features=sf, control_features=cf)
        got = "ok"
    except ValueError as e:
        m = str(e)
        got = "bad_name" if ("must be strings" in m or "must be a string" in m) else "duplicate" if "duplicate feature name" in m else "reserved"
    except Exception:
        got = "reserved"
    if got != ob["outcome"]:
        return [f"naming {tag}: construction outcome '{got}', Naming.tla says '{ob['outcome']}'"]
    if got != "ok":
        return []
    notes = []
    if list(mf.sensitive_levels) != ob["sf_names"] or (mf.control_levels or []) != ob["cf_names"]:
        notes.append(f"naming {tag}: sensitive_levels {mf.sensitive_levels} / control_levels {mf.control_levels}, Naming.tla says {ob['sf_names']} / {ob['cf_names']}")
    if list(mf.by_group.index.names) != ob["index_names"]:
        notes.append(f"naming {tag}: by_group index names {list(mf.by_group.index.names)}, Naming.tla says {ob['index_names']}")
    # the names do not change the numbers: same cells as a frame over neutral containers
    ref = fm.MetricFrame(metrics={"sel": fm.selection_rate, "cnt": fm.count}, y_true=y, y_pred=p,
                         sensitive_features=np.array(_NM_DATA["sf"][:ns]).T, control_features=None if cf is None else np.array(_NM_DATA["cf"][:nc]).T)
    a = {(k if isinstance(k, tuple) else (k,)): tuple(v) for k, v in zip(mf.by_group.index, mf.by_group.fillna(-1).values.tolist())}
    b = {(k if isinstance(k, tuple) else (k,)): tuple(v) for k, v in zip(ref.by_group.index, ref.by_group.fillna(-1).values.tolist())}
    if a != b:
        notes.append(f"naming {tag}: by_group cells differ from those of the unnamed presentation")
    return notes


def naming(ck, limit=None):
    cfg = lambda k: f"CONSTANTS Emit = TRUE\nNShards = 8\nShard = {k}\nSPECIFICATION Spec\nINVARIANT OkDistinct\nINVARIANT OkStrings\nINVARIANT OkCount\nINVARIANT UnnamedNeverCollide\nINVARIANT EmitInv\nCHECK_DEADLOCK FALSE\n"
    obs = ck.tlc_shards("Naming", cfg, 8, "extension: feature naming rules of MetricFrame", same_space=True)
    if limit:
        ck.rng("naming").shuffle(obs)
        obs = obs[:limit]
    n = 0
    outcomes = {}
    for ob, notes in zip(obs, pmap(_naming_one, obs, chunksize=16)):
        n += 1
        outcomes[ob["outcome"]] = outcomes.get(ob["outcome"], 0) + 1
        for t in notes:
            ck.note_drift("[extension Naming.tla] " + t)
    ck.extra["extension_naming_cases"] = n
    ck.extra["extension_naming_outcomes"] = outcomes


_FC_Y = [0, 1, 1, 0, 1, 0, 1, 1]; _FC_P = [0, 1, 0, 0, 1, 1, 1, 0]
_FC_G = ["a", "a", "b", "b", "b", "a", "a", "b"]; _FC_C = ["u", "v", "u", "v", "u", "v", "u", "v"]
_SENTINEL = 12345.0


def _fc_frame(ob):
    import fairlearn.metrics as fm
    from sklearn.metrics import accuracy_score, confusion_matrix
    fns = [(accuracy_score if i == 0 else fm.selection_rate) if k == "scalar" else confusion_matrix for i, k in enumerate(ob["kinds"])]
    mets = fns[0] if ob["bare"] else {f"m{i+1}": f for i, f in enumerate(fns)}
    return fm.MetricFrame(metrics=mets, y_true=_FC_Y, y_pred=_FC_P, sensitive_features=_FC_G, control_features=_FC_C if ob["control"] else None)


def _fc_call(mf, st):
    kw = {"errors": st["errors"]}
    if st["method"] != "-":
        kw["method"] = st["method"]
    try:
        return "value", getattr(mf, st["api"])(**kw)
    except ValueError as e:
        m = str(e)
        return ("invalid_errors" if "Invalid error value" in m else "invalid_method" if "Unrecognised comparison method" in m else "nonscalar_error"), None
    except Exception as e:       # any other exception type is not part of the protocol
        return f"unexpected {type(e).__name__}", None


def _fc_canon(v):
    import pandas as pd
    if isinstance(v, pd.DataFrame):
        return [[None if x != x else round(float(x), 12) for x in row] for row in v.values.tolist()]
    if isinstance(v, pd.Series):
        return [None if x != x else round(float(x), 12) for x in v.values.tolist()]
    return None if v != v else round(float(v), 12)


def _fc_one(ob):
    import warnings
    import pandas as pd
    notes = []
    tag = f"kinds={ob['kinds']} bare={ob['bare']} control={ob['control']}"
    with warnings.catch_warnings():
        warnings.simplefilter("ignore")
        mf = _fc_frame(ob)
        for i, st in enumerate(ob["hist"]):
            call = f"{st['api']}({'' if st['method'] == '-' else 'method=' + st['method'] + ', '}errors={st['errors']})"
            got, val = _fc_call(mf, st)
            if got != st["answer"]:
                notes.append(f"calls {tag} step {i+1} {call}: answer '{got}', FrameCalls.tla says '{st['answer']}'")
                break
            if got != "value":
                continue
            if st["op"] == "mutate":
                if isinstance(val, pd.DataFrame):
                    val.iloc[0, 0] = _SENTINEL
                elif isinstance(val, pd.Series):
                    val.iloc[0] = _SENTINEL
                else:
                    notes.append(f"calls {tag} step {i+1} {call}: FrameCalls.tla says the answer is a mutable container, got {type(val).__name__}")
                continue
            first = val.iloc[0, 0] if isinstance(val, pd.DataFrame) else val.iloc[0] if isinstance(val, pd.Series) else val
            if st["stale"] != (first == _SENTINEL):
                notes.append(f"calls {tag} step {i+1} {call}: answer {'shows' if first == _SENTINEL else 'does not show'} the caller's earlier write, FrameCalls.tla (Mutate) says stale={st['stale']}")
                continue
            if st["stale"]:
                continue
            # NaN exactly in the entries of the non-scalar metrics
            if not ob["bare"]:
                for j, isnan in enumerate(st["nan"]):
                    col = val[f"m{j+1}"]
                    vals = list(col.values) if isinstance(col, pd.Series) else [col]
                    if any((x != x) != isnan for x in vals):
                        notes.append(f"calls {tag} step {i+1} {call}: metric m{j+1} entries {vals}, FrameCalls.tla says NaN={isnan}")
            else:
                vals = list(val.values) if isinstance(val, pd.Series) else [val]
                if any((x != x) != st["nan"][0] for x in vals):
                    notes.append(f"calls {tag} step {i+1} {call}: entries {vals}, FrameCalls.tla says NaN={st['nan'][0]}")
            # history independence: the same call on a frame that has seen no other call
            g2, v2 = _fc_call(_fc_frame(ob), st)
            if g2 != got or _fc_canon(v2) != _fc_canon(val):
                notes.append(f"calls {tag} step {i+1} {call}: answer depends on the calls made before ({_fc_canon(val)} vs fresh {_fc_canon(v2)})")
    return notes


def frame_calls(ck):
    laws = "INVARIANT Pure\nINVARIANT StaleOnlyAfterMutate\nINVARIANT ValidationFirst\nINVARIANT ScalarFramesAnswer\nINVARIANT CoerceAnswers\n"
    ck.tlc("FrameCalls", f"CONSTANTS MaxLen = 3\nEmit = FALSE\nSPECIFICATION Spec\n{laws}CHECK_DEADLOCK FALSE\n", "extension: aggregate call protocol laws, histories <= 3", timeout=900)
    obs = ck.tlc("FrameCalls", f"CONSTANTS MaxLen = 2\nEmit = TRUE\nSPECIFICATION Spec\n{laws}INVARIANT EmitInv\nCHECK_DEADLOCK FALSE\n",
                 "extension: emit all call histories of length 2", workers=1, timeout=900).emitted
    rnd = ck.rng("frame_calls")
    rnd.shuffle(obs)
    obs = obs[:1200 if ck.quick else 6000]
    obs += ck.tlc("FrameCalls", f"CONSTANTS MaxLen = 5\nEmit = TRUE\nSPECIFICATION Spec\n{laws}INVARIANT EmitInv\nCHECK_DEADLOCK FALSE\n",
                  "extension: simulated call histories of length 5", workers=1, simulate=f"num={300 if ck.quick else 2000}", depth=6, timeout=900).emitted
    n = stale = mut = 0
    for ob, notes in zip(obs, pmap(_fc_one, obs, chunksize=8)):
        n += 1
        stale += any(s["stale"] for s in ob["hist"])
        mut += any(s["op"] == "mutate" for s in ob["hist"])
        for t in notes:
            ck.note_drift("[extension FrameCalls.tla] " + t)
    ck.extra["extension_frame_call_histories"] = n
    ck.extra["extension_frame_call_histories_with_mutation"] = mut
    ck.extra["extension_frame_call_histories_with_stale_answer"] = stale


def _encode_one(ob):
    """Encode.tla state -> real FloatTransformer, in three presentations of the values (floats, ints, strings)"""
    import warnings
    from fairlearn.adversarial._preprocessor import FloatTransformer
    notes = []
    allint = all(v % 2 == 0 for v in ob["fit"] + ob["q"])
    pres = [("float", lambda v: v / 2.0)]
    if allint:
        pres += [("int", lambda v: v // 2), ("str", lambda v: "abc"[v // 2])]
    for pname, f in pres:
        tag = f"fit={[f(v) for v in ob['fit']]} query={[f(v) for v in ob['q']]}"
        with warnings.catch_warnings():
            warnings.simplefilter("ignore")
            try:
                ft = FloatTransformer().fit([f(v) for v in ob["fit"]])
            except Exception as e:
                notes.append(f"encode {tag}: fit raised {type(e).__name__}: {str(e)[:80]}")
                continue
            if ft.inferred_type_ != ob["type"]:
                notes.append(f"encode {tag}: inferred type {ft.inferred_type_}, Encode.tla says {ob['type']}")
                continue
            try:
                t = ft.transform([f(v) for v in ob["q"]])
                got = "ok"
            except ValueError as e:
                got = "type_error" if "Unknown label type" in str(e) else "unknown_category" if "unknown categories" in str(e) else f"ValueError {str(e)[:60]}"
            except Exception as e:
                got = f"{type(e).__name__} {str(e)[:60]}"
            if got != ob["outcome"]:
                notes.append(f"encode {tag}: transform outcome '{got}', Encode.tla says '{ob['outcome']}'")
                continue
            # the training data itself: width, encoding, round trip
            tf = ft.transform([f(v) for v in ob["fit"]])
            if tf.shape != (len(ob["fit"]), ob["width"]) or tf.dtype != float:
                notes.append(f"encode {tag}: transformed training data has shape {tf.shape} dtype {tf.dtype}, Encode.tla says width {ob['width']} floats")
                continue
            back = list(np.asarray(ft.inverse_transform(tf)).tolist())
            if back != [f(v) for v in ob["fit"]]:
                notes.append(f"encode {tag}: inverse_transform(transform(x)) = {back}")
            if got == "ok":
                exp = [[x / 2.0 for x in row] for row in ob["rows"]]
                if t.tolist() != exp:
                    notes.append(f"encode {tag}: rows {t.tolist()}, Encode.tla says {exp}")
    return notes


def encode(ck):
    laws = "".join(f"INVARIANT {x}\n" for x in ("RoundTrip", "WidthLaw", "Injective", "TrainingDataAccepted", "OneHot", "KnownValuesAccepted", "DeviationIsRejection"))
    L = 3 if ck.quick else 4
    cfg = lambda k: f"CONSTANTS MaxLen = {L}\nEmit = TRUE\nNShards = {8 if ck.quick else 64}\nShard = {k}\nSPECIFICATION Spec\n{laws}INVARIANT EmitInv\nCHECK_DEADLOCK FALSE\n"
    obs = ck.tlc_shards("Encode", cfg, 8, f"extension: FloatTransformer encoding rules, columns <= {L}", same_space=True)
    if ck.quick:
        ck.rng("encode").shuffle(obs)
        obs = obs[:6000]
    n = dev = 0
    out = {}
    for ob, notes in zip(obs, pmap(_encode_one, obs, chunksize=32)):
        n += 1
        dev += ob["subset_batch"]
        out[ob["outcome"]] = out.get(ob["outcome"], 0) + 1
        for t in notes:
            ck.note_drift("[extension Encode.tla] " + t)
    ck.extra["extension_encode_cases"] = n
    ck.extra["extension_encode_outcomes"] = out
    ck.extra["extension_encode_subset_batch_deviation_cases"] = dev
