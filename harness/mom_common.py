"""Helpers for the Moments.tla-based checks (C06, C07, C08, C09)."""
import json
import random
from fractions import Fraction

import numpy as np

from harness.core import R

GLAB = {1: "m_one", 2: "z_two", 3: "a_three", 4: "k_four"}
CLAB = {1: "q1", 2: "c2", 3: "x3"}
KINDS = ["DP", "TPR", "FPR", "EO", "ERP"]
EPS = 0.05


def cfg(N, G, S, F, emit, mode="moments", laws=("LawsC06", "LawsC07"), nshards=1, shard=0, sim=False, kinds=KINDS):
    inv = list(laws) + ["EmitInv"]
    ks = ",".join(f'"{k}"' for k in kinds)
    return (f"CONSTANTS N = {N} G = {G} S = {S} F = {F} Kinds = {{{ks}}} Emit = {'TRUE' if emit else 'FALSE'} Mode = \"{mode}\" "
            f"NShards = {nshards} Shard = {shard}\nINIT Init\nNEXT {'NextSim' if sim else 'Next'}\n"
            + "".join(f"INVARIANT {i}\n" for i in inv) + "CHECK_DEADLOCK FALSE\n")


def moment_class(kind):
    import fairlearn.reductions as red
    return {"DP": red.DemographicParity, "TPR": red.TruePositiveRateParity, "FPR": red.FalsePositiveRateParity,
            "EO": red.EqualizedOdds, "ERP": red.ErrorRateParity}[kind]


SLACKS = [0.05, 0.0, 0.2, 0.01]


def make_moment(kind, ratio, eps=EPS):
    """difference bound eps for r = 1, otherwise ratio bound r with slack eps (eps may be 0.0)"""
    cls = moment_class(kind)
    r = Fraction(ratio[0], ratio[1])
    if r == 1:
        return cls(difference_bound=eps)
    return cls(ratio_bound=float(r), ratio_bound_slack=eps)


def event_name(c, lab, has_control, clab=CLAB):
    base = "all" if lab == 2 else f"label={lab}"
    return f"control={clab[c]},{base}" if has_control else base


def index_key(entry, has_control, glab=GLAB, clab=CLAB):
    sign, c, lab, g = entry
    return (sign, event_name(c, lab, has_control, clab), glab[g])


def materialise(case, seed, which=1):
    rows = case["rows"]
    n = len(rows)
    order = list(range(n))
    if which:
        random.Random(hash((seed, which, json.dumps(rows))) & 0xFFFFFFFF).shuffle(order)
    rr = [rows[i] for i in order]
    d = {"order": order, "g": [GLAB[r[0]] for r in rr], "y": [r[1] for r in rr], "c": [CLAB[r[2]] for r in rr],
         "f": [r[3] for r in rr], "n": n}
    # X: column 0 = position id (so predictor callables can return arbitrary per-row vectors), column 1 = feature value
    d["X"] = np.array([[j, rr[j][3]] for j in range(n)], dtype=float)
    return d


def preload(moment, has_control):
    """load a DIFFERENT data set first (7 rows) and evaluate gamma once: a later load_data must start from scratch"""
    Xo = np.array([[j, j % 2] for j in range(7)], dtype=float)
    yo = np.array([0, 1, 1, 0, 1, 0, 1])
    kw = {"sensitive_features": ["m_one", "z_two", "z_two", "m_one", "z_two", "m_one", "a_three"]}
    if has_control:
        kw["control_features"] = ["q1", "c2", "q1", "c2", "q1", "q1", "c2"]
    moment.load_data(Xo, yo, **kw)
    moment.gamma(lambda X: np.zeros(len(X)))
    return moment


def load(moment, d, has_control):
    kw = {"sensitive_features": d["g"]}
    if has_control:
        kw["control_features"] = d["c"]
    moment.load_data(d["X"], np.array(d["y"]), **kw)
    return moment


def vec_predictor(values):
    """predictor callable returning the given per-position vector (positions read from X[:,0])"""
    vals = np.asarray(values, dtype=float)

    def pred(X):
        idx = np.asarray(X)[:, 0].astype(int)
        return vals[idx]
    return pred


def frac_vec(xs):
    return [R(x) for x in xs]
