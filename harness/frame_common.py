"""Replay helpers shared by the MetricFrame-based checks (C02, C03, C11)."""
import json
import math
import random

import numpy as np

from harness.core import R, close

METRICS = ["sel", "tpr", "fpr", "fnr", "tnr", "acc", "prec", "zol", "smean", "precn", "tpc", "amean"]
SIGNED = {"smean"}
# group id -> concrete label; sort order (alphabetical) differs from the id order
GLABEL = {1: "m_one", 2: "z_two", 3: "a_three", 4: "k_four", 5: "b_five"}
CLABEL = {1: "q1", 2: "c2", 3: "x3"}


def frame_cfg(N, G, W, S, emit, nshards=1, shard=0, sim=False, laws=True):
    inv = (["LawAggregates", "LawSigned", "LawTwoSF", "LawWeightedMean", "LawPartition", "LawUnitWeights"] if laws else []) + ["EmitInv"]
    return (f"CONSTANTS N = {N} G = {G} W = {W} S = {S} Emit = {'TRUE' if emit else 'FALSE'} NShards = {nshards} Shard = {shard}\n"
            f"INIT Init\nNEXT {'NextSim' if sim else 'Next'}\n" + "".join(f"INVARIANT {i}\n" for i in inv) + "CHECK_DEADLOCK FALSE\n")


def signed_mean(y_true, y_pred, sample_weight=None):
    """a SIGNED metric: weighted mean of (2*pred - 1) * (1 + y)"""
    v = (2 * np.asarray(y_pred, dtype=float) - 1) * (1 + np.asarray(y_true, dtype=float))
    w = np.ones(len(v)) if sample_weight is None else np.asarray(sample_weight, dtype=float)
    return float(np.dot(v, w) / w.sum())


def abs_signed_mean(y_true, y_pred, sample_weight=None):
    """a NON-NEGATIVE metric that is not a mean: |signed_mean|; its overall value can be 0 while its group values are not"""
    return abs(signed_mean(y_true, y_pred, sample_weight))


def tp_count(y_true, y_pred, sample_weight=None):
    """an INTEGER-valued metric: number of true positives (weights ignored)"""
    return int(np.sum((np.asarray(y_true) == 1) & (np.asarray(y_pred) == 1)))


def metric_fns():
    import fairlearn.metrics as fm
    import sklearn.metrics as skm
    import functools
    prec = functools.partial(skm.precision_score, zero_division=0)
    prec.__name__ = "precision0"
    precn = functools.partial(skm.precision_score, zero_division=np.nan)       # NaN on a non-empty group without predicted positives
    precn.__name__ = "precision_nan"
    return {"sel": fm.selection_rate, "tpr": fm.true_positive_rate, "fpr": fm.false_positive_rate,
            "fnr": fm.false_negative_rate, "tnr": fm.true_negative_rate, "acc": skm.accuracy_score,
            "prec": prec, "zol": skm.zero_one_loss, "smean": signed_mean, "precn": precn, "tpc": tp_count, "amean": abs_signed_mean}


def order_for(case_rows, seed, which):
    n = len(case_rows)
    p = list(range(n))
    if which > 0:
        random.Random(hash((seed, which, json.dumps(case_rows))) & 0xFFFFFFFF).shuffle(p)
    return p


def concrete(rows, order):
    rr = [rows[i] for i in order]
    return {"g": [GLABEL[r[0]] for r in rr], "c": [CLABEL[r[1]] for r in rr], "y": [r[2] for r in rr],
            "p": [r[3] for r in rr], "w": [r[4] for r in rr]}


def isnan(x):
    try:
        return math.isnan(float(x))
    except Exception:
        return False


def lookup(res, metric_name, cval=None, gval=None, callable_form=False):
    """Pick one number out of a MetricFrame result of any of the four shapes."""
    import pandas as pd
    x = res
    if isinstance(x, pd.DataFrame):
        x = x[metric_name]
    elif isinstance(x, pd.Series) and not callable_form:
        # dict metrics, no control features, aggregate: Series indexed by metric name
        if cval is None and gval is None:
            return x[metric_name]
    if isinstance(x, pd.Series):
        if cval is not None and gval is not None:
            return x[(cval, gval)]
        if cval is not None:
            return x[cval]
        if gval is not None:
            return x[gval]
    return x
