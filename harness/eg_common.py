"""Real ExponentiatedGradient fits on TLC-emitted payoff tables: certificate checks (C08),
pmf / sampling checks (C10) and trace construction for EGTrace.tla."""
import json
import math
import random
from fractions import Fraction

import numpy as np

from harness.core import R, MachineryError
from harness import mom_common as M
from harness import red_common as RC

SLACK = 1e-7


def trace_from_events(events, max_iter, run_lp):
    """hook events of ONE fit -> trace for EGTrace.tla (gaps as dense ranks, Q_EG as exact numerators)"""
    iters = [e for e in events if e["ev"] == "eg_iter"]
    done = [e for e in events if e["ev"] == "eg_done"]
    if not iters or len(done) != 1:
        return None
    nu = iters[-1]["nu"]
    gaps = [min(e["gap_EG"], e["gap_LP"]) for e in iters]
    thr_val = min(gaps) + 1e-8
    vals = sorted({v for e in iters for v in (e["gap_EG"], e["gap_LP"]) if math.isfinite(v)} | {nu, thr_val})
    rank = {v: i for i, v in enumerate(vals)}
    inf = len(vals)
    rk = lambda v: rank[v] if math.isfinite(v) else inf
    out = []
    for e in events:
        if e["ev"] == "oracle":
            out.append({"ev": "oracle", "idx": e["idx"], "added": e["added"], "n_hs": e["n_hs"]})
        elif e["ev"] == "eg_iter":
            t = e["t"]
            nh = e["n_hs"]
            qnum, qs, exact = [], [], True
            for h in range(nh):
                cnt = float(e["qsum"].get(h, e["qsum"].get(str(h), 0.0)))
                qs.append(int(round(cnt)))
                exact = exact and abs(cnt - round(cnt)) < 1e-9
                if e["src"] == "EG":
                    v = float(e["Q"].get(h, e["Q"].get(str(h), 0.0))) * (t + 1)
                    qnum.append(int(round(v)))
                    exact = exact and abs(v - round(v)) < 1e-9
            out.append({"ev": "iter", "t": t, "h_idx": e["h_idx"], "n_hs": nh, "g_eg": rk(e["gap_EG"]), "g_lp": rk(e["gap_LP"]),
                        "src": e["src"], "qsum": qs, "qnum": qnum, "qexact": bool(exact)})
        elif e["ev"] == "eg_done":
            out.append({"ev": "done", "best_iter": e["best_iter"], "last_iter": e["last_iter"], "thr": rank[thr_val],
                        "best_gap_rank": rk(e["best_gap"])})
    return {"cfg": {"max_iter": max_iter, "run_lp": bool(run_lp), "nu_rank": rank[nu], "inf": inf}, "events": out}


def project(lam, keys, ratio_is_one):
    if not ratio_is_one:
        return list(lam)
    pos = {(k[1], k[2]): i for i, k in enumerate(keys) if k[0] == "+"}
    neg = {(k[1], k[2]): i for i, k in enumerate(keys) if k[0] == "-"}
    out = [0.0] * len(lam)
    for p, i in pos.items():
        j = neg[p]
        d = lam[i] - lam[j]
        out[i] = max(d, 0.0)
        out[j] = max(-d, 0.0)
    return out


def opt_over_table(tab, eps):
    """min error over distributions on H meeting every constraint (float LP over exact table data); None if infeasible"""
    import scipy.optimize as opt
    nh = len(tab.hyps)
    c = [float(x) for x in tab.err]
    A = [[float(tab.gamma[q][k]) - eps for q in range(nh)] for k in range(len(tab.keys))]
    res = opt.linprog(c, A_ub=A or None, b_ub=[0.0] * len(A) if A else None, A_eq=[[1.0] * nh], b_eq=[1.0], bounds=[(0, 1)] * nh, method="highs")
    if res.status == 2:
        return None
    if res.status != 0:
        return "lp_failed"
    return float(res.fun)


def run_fit(job):
    """one real EG fit; returns dict(c08=[...], c10=[...], trace=..., info=...)"""
    case, conf, seed, want_c10 = job
    import pandas as pd
    import fairlearn.reductions as red
    from fairlearn.utils import _verif_trace
    costs = None
    if len(conf) == 9:            # extension: cost-sensitive objective
        costs = conf[8]
        conf = conf[:8]
    kind, rq, eps_b, max_iter, run_lp, eta0, nu, which = conf
    res = {"c08": [], "c10": [], "trace": None, "info": {}, "conf": conf}
    if not _verif_trace._ON:
        raise MachineryError("hooks are not enabled (FAIRLEARN_VERIF_TRACE)")
    d = M.materialise(case, seed, which)
    n, F = d["n"], case["F"]
    tab = RC.Table(case, kind, rq, costs)
    ratio = case["ratios"][rq]
    r1 = ratio[0] == ratio[1]
    sig0 = {"moment": kind, "run_lp": bool(run_lp)}
    detail = {"config": conf, "data": {k: d[k] for k in ("g", "y", "f")}}
    B = 1.0 / eps_b
    try:
        del _verif_trace.events[:]
        eg = red.ExponentiatedGradient(RC.ExactLearner(), M.make_moment(kind, ratio), eps=eps_b, max_iter=max_iter, nu=nu, eta0=eta0,
                                       run_linprog_step=bool(run_lp), objective=None if costs is None else red.ErrorRate(costs={"fp": costs[0], "fn": costs[1]}))
        if (which + max_iter) % 3 == 2 and n > 1 and costs is None:
            # the SAME estimator object was fitted before on the same rows in another order (same size, other data positionally):
            # what the second fit certifies must be about the data of the second fit
            d0 = M.materialise(case, seed, which + 1)
            if d0["y"] != d["y"] or d0["g"] != d["g"] or d0["f"] != d["f"]:
                eg.fit(d0["X"], np.array(d0["y"]), sensitive_features=d0["g"])
                res["info"]["refit"] = True
                del _verif_trace.events[:]
        eg.fit(d["X"], np.array(d["y"]), sensitive_features=d["g"])
        events = list(_verif_trace.events)
    except Exception as e:
        if "sample_weight contains NaN" in str(e) or "at least one non-zero" in str(e):
            # an oracle call whose signed weights cancel the objective weights exactly on every row (n*|w|/sum|w| = 0/0);
            # precondition of the reduction (some weight non-zero), recorded as skipped
            res["skipped"] = "all-zero sample weights in an oracle call"
            return res
        res["c08"].append(({"api": "fit", "kind": "exception", "exc": type(e).__name__, **sig0}, f"EG.fit raised {e!r}", detail))
        return res
    res["trace"] = trace_from_events(events, max_iter, run_lp)
    iters = [e for e in events if e["ev"] == "eg_iter"]
    w = eg.weights_
    # ---- weights_ is a probability vector over predictors_
    if set(w.index) != set(range(len(eg.predictors_))) or (w.values < -1e-12).any() or abs(w.sum() - 1) > 1e-9:
        res["c08"].append(({"api": "weights_", "kind": "not_distribution", **sig0}, f"weights_ = {dict(w)} over {len(eg.predictors_)} predictors", detail))
        return res
    hyps = [RC.hyp_of(p, F) for p in eg.predictors_]
    Q = {}
    for k, h in enumerate(hyps):
        Q[h] = Q.get(h, 0.0) + float(w[k])
    errQ = sum(wt * float(tab.err_of(h)) for h, wt in Q.items())
    gamQ = [sum(wt * float(tab.gamma_of(h)[k]) for h, wt in Q.items()) for k in range(len(tab.keys))]
    eps_c = M.EPS
    g = float(eg.best_gap_)
    it = iters[eg.best_iter_]
    code_keys = list(eg.constraints.index)
    lam_code = dict(zip(code_keys, it["lambda_hat"]))
    if set(code_keys) != set(tab.keys):
        res["c08"].append(({"api": "index", "kind": "mismatch", **sig0}, "constraint index differs from the specification (C06)", detail))
        return res
    lam = [lam_code[k] for k in tab.keys]
    lam_p = project(lam, tab.keys, r1)
    def Lval(err, gam):
        return err + sum(l * (gv - eps_c) for l, gv in zip(lam_p, gam))
    L = Lval(errQ, gamQ)
    L_low = min(Lval(float(tab.err[q]), [float(x) for x in tab.gamma[q]]) for q in range(len(tab.hyps)))
    maxc = max([gv - eps_c for gv in gamQ]) if gamQ else 0.0
    L_high = errQ + B * max(0.0, maxc)
    true_gap = max(L - L_low, L_high - L)
    res["info"] = {"true_gap": true_gap, "best_gap": g, "iters": len(iters), "last_iter": int(eg.last_iter_), "n_hs": len(hyps),
                   "early": bool(eg.last_iter_ < max_iter - 1), "src": it["src"], "support": int((w > 0).sum())}
    if true_gap > g + SLACK:
        res["c08"].append(({"api": "best_gap_", "kind": "gap_understated", **sig0},
                           f"true duality gap {true_gap} of the returned Q against the recorded multipliers exceeds best_gap_ {g}", {**detail, "Q": {str(k): v for k, v in Q.items()}, "lambda": lam}))
    opt = opt_over_table(tab, eps_c)
    res["info"]["feasible"] = opt is not None
    if opt == "lp_failed":
        opt = None
    if opt is not None:
        if errQ > opt + 2 * g + SLACK:
            res["c08"].append(({"api": "weights_", "kind": "error_guarantee", **sig0}, f"error(Q) = {errQ} > OPT {opt} + 2*best_gap_ {g}", detail))
        if maxc > (1 + 2 * g) / B + SLACK:
            res["c08"].append(({"api": "weights_", "kind": "violation_guarantee", **sig0}, f"constraint exceeds its bound by {maxc} > (1+2g)/B = {(1 + 2 * g) / B}", detail))
    nu_used = nu if nu is not None else iters[-1]["nu"]          # the threshold that was REQUESTED (derived by fit only when None was requested)
    if eg.last_iter_ < max_iter - 1 and not (g < nu_used + 1e-8):
        res["c08"].append(({"api": "best_gap_", "kind": "early_stop_uncertified", **sig0}, f"stopped after {eg.last_iter_ + 1} < {max_iter} iterations but best_gap_ {g} >= nu {nu_used}", detail))
    if want_c10:
        res["c10"] = c10_eg(eg, hyps, F, seed, sig0, detail)
    return res


def c10_eg(eg, hyps, F, seed, sig0, detail):
    """pmf = weights_-weighted mixture of the stored predictors BY ID; sampling support / determinism / frequencies"""
    out = []
    w = eg.weights_
    Xq = np.array([[j, f] for j, f in enumerate(list(range(F)) * 3)], dtype=float)
    pmf = eg._pmf_predict(Xq)
    if not (np.all(pmf >= -1e-12) and np.all(pmf <= 1 + 1e-12) and np.allclose(pmf.sum(axis=1), 1, atol=1e-12)):
        out.append(({"api": "EG._pmf_predict", "kind": "pmf_invalid", **sig0}, f"pmf not a distribution: {pmf.tolist()[:3]}", detail))
    mix = np.zeros(len(Xq))
    for k, p in enumerate(eg.predictors_):
        mix += float(w[k]) * np.asarray(p.predict(Xq), dtype=float)
    if not np.allclose(pmf[:, 1], mix, atol=1e-12):
        out.append(({"api": "EG._pmf_predict", "kind": "not_mixture_by_id", **sig0},
                    f"positive probability {pmf[:, 1].tolist()[:F]} != sum_k weights_[k]*predictors_[k] {mix.tolist()[:F]} (weights index {list(w.index)})", detail))
    y1 = eg.predict(Xq, random_state=seed + 3)
    y2 = eg.predict(Xq, random_state=seed + 3)
    if not set(np.unique(y1)).issubset({0, 1}):
        out.append(({"api": "EG.predict", "kind": "predict_not_01", **sig0}, f"predict returned {np.unique(y1)}", detail))
    if not np.array_equal(y1, y2):
        out.append(({"api": "EG.predict", "kind": "predict_not_reproducible", **sig0}, "same random_state, different labels", detail))
    p = mix
    drift = 0
    for sd in range(10):
        ys = np.asarray(eg.predict(Xq, random_state=sd))
        for i in range(len(p)):
            if (p[i] <= 1e-15 and ys[i] != 0) or (p[i] >= 1 - 1e-15 and ys[i] != 1):
                out.append(({"api": "EG.predict", "kind": "deterministic_row_flipped", **sig0}, f"p={p[i]} but predict gave {ys[i]}", detail))
                break
        if not np.array_equal(ys, (pmf[:, 1] >= np.random.RandomState(sd).rand(len(p))) * 1):
            drift += 1
    # frequency clause: each distinct query row replicated, ONE call
    reps = 3000
    Xr = np.repeat(Xq[:F], reps, axis=0)
    ys = np.asarray(eg.predict(Xr, random_state=seed + 11)).reshape(F, reps)
    for f in range(F):
        pf = float(mix[f])
        sd = math.sqrt(max(pf * (1 - pf), 1e-12) / reps)
        if abs(ys[f].mean() - pf) > 6 * sd + 1e-9:
            out.append(({"api": "EG.predict", "kind": "frequency", **sig0}, f"frequency {ys[f].mean()} vs probability {pf} over {reps} draws", detail))
    return out, drift
