"""Replay of Threshold.tla states into the real ThresholdOptimizer (shared by C04, C05, C10)."""
import json
import math
import random

import numpy as np

from harness.core import R

CON = ["sel", "fpr", "fnr", "tpr", "tnr"]
CON_NAMES = {"sel": ["demographic_parity", "selection_rate_parity"], "fpr": ["false_positive_rate_parity"],
             "fnr": ["false_negative_rate_parity"], "tpr": ["true_positive_rate_parity"], "tnr": ["true_negative_rate_parity"]}
OBJ = ["acc", "bal", "sel", "tpr", "tnr"]
OBJ_NAMES = {"acc": "accuracy_score", "bal": "balanced_accuracy_score", "sel": "selection_rate",
             "tpr": "true_positive_rate", "tnr": "true_negative_rate"}
GLAB = {1: "m_one", 2: "z_two", 3: "a_three", 4: "k_four", 5: "b_five"}
INV = ["LawCodeHull", "LawConcave", "LawGeConst", "LawPIgnore", "LawMonotone"]


def cfg(N, G, L, GS, emit, nshards=1, shard=0, sim=False, laws=True):
    inv = (INV if laws else []) + ["EmitInv"]
    return (f"CONSTANTS N = {N} G = {G} L = {L} GridSizes = {{{','.join(map(str, GS))}}} Emit = {'TRUE' if emit else 'FALSE'} "
            f"NShards = {nshards} Shard = {shard}\nINIT Init\nNEXT {'NextSim' if sim else 'Next'}\n"
            + "".join(f"INVARIANT {i}\n" for i in inv) + "CHECK_DEADLOCK FALSE\n")


from sklearn.base import BaseEstimator


class Passthrough(BaseEstimator):
    """prefit 'estimator' whose predict returns the score column"""
    def __init__(self):
        self.fitted_ = True

    def fit(self, X, y=None, **kw):
        self.fitted_ = True
        return self

    def predict(self, X):
        return np.asarray(X)[:, 0]

    # decoys: the checks always ask for predict_method="predict"; a rule that consults another method
    # (at fit or at predict time) sees scores in the opposite order / constant scores
    def predict_proba(self, X):
        s = np.asarray(X)[:, 0]
        return np.c_[0.5 + 0 * s, 0.5 + 0 * s]

    def decision_function(self, X):
        return -np.asarray(X)[:, 0]

    def __sklearn_is_fitted__(self):
        return True


def all_configs(gs_list):
    out = []
    for ci, c in enumerate(CON):
        for oi, o in enumerate(OBJ):
            for fi in (0, 1):
                for ki, gs in enumerate(gs_list):
                    out.append(("simple", ci, oi, fi, ki))
    for oi in (0, 1):
        for fi in (0, 1):
            for ki, gs in enumerate(gs_list):
                out.append(("eo", None, oi, fi, ki))
    return out


def materialise(case, seed, which):
    rows = case["rows"]
    n = len(rows)
    rnd = random.Random(hash((seed, which, json.dumps(rows))) & 0xFFFFFFFF)
    order = list(range(n))
    if which:
        rnd.shuffle(order)
    rr = [rows[i] for i in order]
    L = case["L"]
    mode = which % 8
    if mode in (0, 1):
        level = [l / (L - 1) if L > 1 else 0.0 for l in range(L)]
    elif mode in (2, 3):  # monotone re-mapping to arbitrary finite floats
        vals = sorted(rnd.uniform(-3, 3) for _ in range(L))
        for i in range(1, L):
            if vals[i] <= vals[i - 1]:
                vals[i] = vals[i - 1] + 0.1
        level = vals
    elif mode == 4:       # distinct but nearly tied scores (only order and exact ties may matter)
        base = rnd.uniform(0.1, 0.9)
        level = [base + i * 2e-7 for i in range(L)]
    elif mode == 6:       # integer-like scores centred at zero: thresholds (midpoints) can be exactly 0.0 or negative
        level = [float(i) - (L - 1) / 2.0 for i in range(L)] if rnd.random() < 0.5 else [float(2 * i - (L - 1)) for i in range(L)]
    elif mode == 7:       # chains of nearly tied scores with uneven gaps around the usual float tolerances
        top = rnd.choice([1.0, 0.37, 250.0])
        offs = [0.0, 0.9e-5, 1.2e-5, 2.9e-5, 3.1e-5, 0.5][:L]
        level = sorted(top * (1.0 - o) for o in offs)
    else:                 # large magnitude, small absolute gaps
        base = rnd.choice([24.51, -1.0e4, 3.0e6])
        level = [base + i * abs(base) * 4e-6 for i in range(L)]
    g = [GLAB[r[0]] for r in rr]
    y = [r[1] for r in rr]
    s = [level[r[2]] for r in rr]
    return g, y, s, level


def group_stats(g, y, p):
    """per-group expected metrics of the randomised rule with positive probabilities p on the given rows"""
    out = {}
    for a in sorted(set(g)):
        idx = [i for i in range(len(g)) if g[i] == a]
        pos = [i for i in idx if y[i] == 1]
        neg = [i for i in idx if y[i] == 0]
        sel = sum(p[i] for i in idx) / len(idx)
        tpr = sum(p[i] for i in pos) / len(pos)
        fpr = sum(p[i] for i in neg) / len(neg)
        acc = (sum(p[i] for i in pos) + sum(1 - p[i] for i in neg)) / len(idx)
        out[a] = {"n": len(idx), "sel": sel, "tpr": tpr, "fpr": fpr, "fnr": 1 - tpr, "tnr": 1 - fpr, "acc": acc,
                  "bal": 0.5 * tpr + 0.5 * (1 - fpr)}
    return out


def run_config(case, config, seed, which, want_c10=False, gs_override=None):
    """fit the real ThresholdOptimizer on one TLC state for one configuration; return measurements"""
    from fairlearn.postprocessing import ThresholdOptimizer
    kind, ci, oi, fi, ki = config
    gs = gs_override or case["gs"][ki]
    g, y, s, level = materialise(case, seed, which)
    n = len(y)
    X = np.array(s, dtype=float).reshape(-1, 1)
    if kind == "simple":
        cons = CON_NAMES[CON[ci]][(seed + ki + fi) % len(CON_NAMES[CON[ci]])]
        obj = OBJ_NAMES[OBJ[oi]]
        exp = case["simple"][ci][oi][fi][ki]
        const = case["const"][oi]
    else:
        cons = "equalized_odds"
        obj = OBJ_NAMES[["acc", "bal"][oi]]
        exp = case["eo"][oi][fi][ki]
        const = case["const_eo"][oi]
    rec = {"config": [kind, cons, obj, bool(fi), gs], "data": {"g": g, "y": y, "s": s}, "which": which}
    try:
        # prefit alternates: with prefit=False the optimiser clones and fits the (pass-through) estimator itself
        to = ThresholdOptimizer(estimator=Passthrough(), constraints=cons, objective=obj, grid_size=gs, flip=bool(fi),
                                prefit=bool((which + ki) % 2), predict_method="predict")
        y_arg, g_arg = y, g
        if (which + (ci or 0) + (oi or 0)) % 3 == 1:
            # labels and groups arrive as pandas objects whose index labels are permutations of 0..n-1: rows pair by POSITION
            import pandas as pd
            import random as _random
            l1 = list(range(n)); _random.Random(seed * 131 + n).shuffle(l1)
            l2 = list(range(n)); _random.Random(seed * 137 + n + 1).shuffle(l2)
            y_arg = pd.Series(y, index=l1, name="label")
            g_arg = pd.Series(g, index=l2)
            rec["presentation"] = "series_with_permuted_labels"
        to.fit(X, y_arg, sensitive_features=g_arg)
        pmf = to._pmf_predict(X, sensitive_features=g)
    except Exception as e:
        rec["error"] = repr(e)
        return rec
    p = [float(v) for v in pmf[:, 1]]
    st = group_stats(g, y, p)
    rec["pmf_ok"] = bool(np.all(pmf >= -1e-12) and np.all(pmf <= 1 + 1e-12) and np.allclose(pmf.sum(axis=1), 1.0, atol=1e-12) and not np.isnan(pmf).any())
    if kind == "simple":
        m = CON[ci]
        vals = [st[a][m] for a in st]
        rec["spread"] = max(vals) - min(vals)
        rec["objective"] = sum(st[a]["n"] / n * st[a][OBJ[oi]] for a in st)
    else:
        rec["spread"] = max(max(st[a][m] for a in st) - min(st[a][m] for a in st) for m in ("fpr", "tpr"))
        pos = [i for i in range(n) if y[i] == 1]
        neg = [i for i in range(n) if y[i] == 0]
        tpr = sum(p[i] for i in pos) / len(pos)
        tnr = sum(1 - p[i] for i in neg) / len(neg)
        rec["objective"] = ((sum(p[i] for i in pos) + sum(1 - p[i] for i in neg)) / n) if oi == 0 else 0.5 * tpr + 0.5 * tnr
    rec["expected"] = None if gs_override else exp
    rec["const"] = const
    rec["lower_bounds"] = None
    if want_c10:
        rec["c10"] = c10_clauses(to, case, level, fi, seed)
    return rec


def c10_clauses(to, case, level, flip, seed):
    """pmf validity / (score, group)-dependence / monotonicity / support / determinism on a query set"""
    bad = []
    groups = sorted({GLAB[r[0]] for r in case["rows"]})
    # query: every (level, group) twice, interleaved with off-level scores, in a scrambled arrangement
    extra = [level[0] - 1.0, level[-1] + 1.0] + [(level[i] + level[i + 1]) / 2 for i in range(len(level) - 1)]
    q = [(s, a) for a in groups for s in list(level) + extra] * 2
    q += [(level[0], "unseen_group"), (level[-1], "unseen_group")]          # a group value that did not occur at fit time: still a valid distribution
    random.Random(seed).shuffle(q)
    Xq = np.array([s for s, a in q], dtype=float).reshape(-1, 1)
    gq = [a for s, a in q]
    pmf = to._pmf_predict(Xq, sensitive_features=gq)
    if np.isnan(pmf).any() or not (np.all(pmf >= 0) and np.all(pmf <= 1) and np.allclose(pmf.sum(axis=1), 1, atol=1e-12)):
        bad.append(("pmf_invalid", f"pmf rows not a distribution: {pmf.tolist()[:4]}"))
    p = pmf[:, 1]
    seen = {}
    for (s, a), v in zip(q, p):
        if (s, a) in seen and seen[(s, a)] != v:
            bad.append(("pmf_not_function_of_score_group", f"(score {s}, group {a}) -> {seen[(s, a)]} and {v}"))
        seen[(s, a)] = v
    if not flip:
        for a in groups:
            pts = sorted((s, v) for (s, b), v in seen.items() if b == a)
            for (s0, v0), (s1, v1) in zip(pts, pts[1:]):
                if v1 < v0 - 1e-12:
                    bad.append(("pmf_not_monotone", f"group {a}: p({s0})={v0} > p({s1})={v1} without flip"))
    y1 = to.predict(Xq, sensitive_features=gq, random_state=seed + 7)
    y2 = to.predict(Xq, sensitive_features=gq, random_state=seed + 7)
    if not set(np.unique(y1)).issubset({0, 1}):
        bad.append(("predict_not_01", f"predict returned {np.unique(y1)}"))
    if not np.array_equal(y1, y2):
        bad.append(("predict_not_reproducible", "same random_state gave different labels"))
    det = [i for i in range(len(p)) if p[i] in (0.0, 1.0)]
    drift = 0
    for sd in range(12):
        ys = to.predict(Xq, sensitive_features=gq, random_state=sd)
        for i in det:
            if ys[i] != int(p[i]):
                bad.append(("deterministic_row_flipped", f"p={p[i]} but predict gave {ys[i]} (seed {sd})"))
                break
        u = np.random.RandomState(sd).rand(len(p))
        if not np.array_equal(ys, (p >= u) * 1):
            drift += 1
    return {"bad": bad, "drift": drift, "n_query": len(q), "n_det": len(det), "n_frac": int(sum(1 for v in p if 0 < v < 1))}


def frequency_clause(to, Xq, gq, reps=4000, seed=0):
    """each query row replicated `reps` times in ONE call; empirical frequency within 6 sigma of p"""
    p = to._pmf_predict(Xq, sensitive_features=gq)[:, 1]
    Xr = np.repeat(Xq, reps, axis=0)
    gr = [a for a in gq for _ in range(reps)]
    ys = np.asarray(to.predict(Xr, sensitive_features=gr, random_state=seed)).reshape(len(p), reps)
    bad = []
    for i, pi in enumerate(p):
        f = ys[i].mean()
        sd = math.sqrt(max(pi * (1 - pi), 1e-12) / reps)
        if abs(f - pi) > 6 * sd + 1e-9:
            bad.append((float(pi), float(f)))
    return bad, len(p)


# ------------------------------------------------------------------------------------------------
def _job(args):
    case, config, seed, which, want_c10, gs_override = args
    return run_config(case, config, seed, which, want_c10, gs_override)


def explore(ck, want_c10=False, per_case=None, quick_gs=None):
    """TLC laws + emission, then fit the real optimiser; returns (cases, records)."""
    from harness.core import pmap
    if ck.quick:
        ck.tlc("Threshold", cfg(4, 2, 3, [1, 2, 3], False), "laws G=2 L=3 N<=4 (CodeHull=Hull, concavity, p_ignore, >= constant)", timeout=900)
        emits = [(5, 2, 3, quick_gs or [1, 2, 3, 4, 6, 10])]
        per_case = per_case or 40
    else:
        ck.tlc("Threshold", cfg(5, 2, 3, [1, 2, 3, 4], False), "laws G=2 L=3 N<=5", timeout=3000)
        ck.tlc("Threshold", cfg(6, 3, 2, [1, 2, 3], False), "laws G=3 L=2 N<=6", timeout=3000)
        emits = [(6, 2, 3, [1, 2, 3, 4, 6, 10]), (6, 3, 2, [1, 2, 3, 4, 6, 10]), (5, 2, 4, [1, 2, 5, 10])]
        per_case = per_case or 60
    cases = []
    for (N, G, L, GS) in emits:
        cases += ck.tlc_shards("Threshold", lambda k: cfg(N, G, L, GS, True, 16, k, laws=False), 16, f"emit G={G} L={L} N<={N} GS={GS}", same_space=True, timeout=3000)
    ck.exhaustive = True
    if ck.quick:
        # a few larger TLC-simulated datasets (imbalanced labels, richer ROC hulls) - every equalized-odds configuration is fitted on them
        sim = ck.tlc("Threshold", cfg(12, 2, 4, [2, 5, 10], True, sim=True, laws=False), "simulate G=2 L=4 N<=12", workers=1, simulate="num=14", depth=12, timeout=1500)
        big = [c for c in sim.emitted if len(c["rows"]) >= 7]
        cases += big
    if not ck.quick:
        for (G, L) in ((4, 4), (5, 3)):
            sim = ck.tlc("Threshold", cfg(14, G, L, [1, 2, 4, 10], True, sim=True, laws=False), f"simulate G={G} L={L} N<=14", workers=1,
                         simulate="num=400", depth=14, timeout=3000)
            cases += sim.emitted
    jobs = []
    for i, c in enumerate(cases):
        allc = all_configs(c["gs"])
        rnd = random.Random(hash((ck.seed, i)) & 0xFFFFFFFF)
        chosen = allc if per_case >= len(allc) else rnd.sample(allc, per_case)
        if len(c["rows"]) >= 7:
            chosen = chosen + [x for x in allc if x[0] == "eo" and x not in chosen]
        for j, conf in enumerate(chosen):
            jobs.append((c, conf, ck.seed, (i + j) % 8, want_c10 and j % 8 == 0, None))
        # grid_size 1000 (replay only): must equalise, and be at least as good as every emitted grid dividing 1000
        conf = rnd.choice(allc)
        jobs.append((c, conf, ck.seed, (i % 8), False, 1000))
    recs = pmap(_job, jobs)
    return cases, jobs, recs
