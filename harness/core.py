"""Shared machinery: TLC runner, emission parser, violation bookkeeping, evidence writer.

Every check is `harness/checks/<id>.py` exposing `run(ck)`; `./check <ID>` builds the
`Check` object, calls it and turns the result into exit code / VIOLATION lines / evidence.
"""
from __future__ import annotations

import json
import os
import re
import shutil
import subprocess
import sys
import tempfile
import time
import hashlib
import random
import multiprocessing as mp
from concurrent.futures import ThreadPoolExecutor
from fractions import Fraction

VERIF = os.path.dirname(os.path.dirname(os.path.abspath(__file__)))
SPEC = os.path.join(VERIF, "spec")
REPO = os.environ.get("VERIF_REPO", "/repo")
TLA_CP = "/opt/veriftools/tla/tla2tools.jar:/opt/veriftools/tla/CommunityModules-deps.jar"
NPROC = max(2, min(16, (os.cpu_count() or 4)))
GUARD = "FAIRLEARN_VERIF_TRACE"


class MachineryError(Exception):
    """Something in the verification machinery (not the property) failed -> exit 2."""


# ------------------------------------------------------------------------------------------
# TLC
# ------------------------------------------------------------------------------------------
class TLCResult:
    def __init__(self):
        self.generated = 0
        self.distinct = 0
        self.emitted = []      # decoded JSON objects printed by PrintT(ToJson(..))
        self.printed = []      # other PrintT lines (raw)
        self.ok = False
        self.violated = None   # name of a violated invariant / property
        self.error = None
        self.raw_tail = ""
        self.wall = 0.0
        self.coverage = {}
        self.depth = 0


_SUMMARY = re.compile(r"^(\d+) states generated, (\d+) distinct states found")
_SIMSUM = re.compile(r"states checked: (\d+)|^The number of states generated: (\d+)")
_INVVIOL = re.compile(r"Invariant (\S+) is violated|Action property (\S+) is violated|Temporal properties were violated|is violated")
_COV = re.compile(r"^<(\w+) line .*>: (\d+):(\d+)")


def parse_tlc_output(text: str, res: TLCResult, want_emitted=True):
    for line in text.splitlines():
        if line.startswith('"'):
            if not want_emitted:
                continue
            try:
                s = json.loads(line)
                if s[:1] in "{[":
                    res.emitted.append(json.loads(s))
                else:
                    res.printed.append(s)
            except Exception:
                res.printed.append(line)
            continue
        if line.startswith("<<") :
            res.printed.append(line)
            continue
        m = _SUMMARY.match(line)
        if m:
            res.generated = int(m.group(1))
            res.distinct = int(m.group(2))
            continue
        if line.startswith("The depth of the complete state graph search is"):
            res.depth = int(re.findall(r"\d+", line)[0])
        if "Model checking completed. No error has been found" in line:
            res.ok = True
        m = _INVVIOL.search(line)
        if m and res.violated is None and line.startswith("Error"):
            res.violated = m.group(1) or m.group(2) or "temporal"
        m = _COV.match(line)
        if m:
            res.coverage[m.group(1)] = res.coverage.get(m.group(1), 0) + int(m.group(3))
        if line.startswith("Error:") and res.error is None and "is violated" not in line:
            res.error = line


def run_tlc(spec: str, cfg: str, *, workdir: str, workers: int = NPROC, timeout: int = 1800,
            env: dict | None = None, simulate: str | None = None, depth: int | None = None,
            seed: int = 0, coverage: bool = False, heap: str = "6g", tag: str = "run",
            want_emitted: bool = True, extra: list | None = None, deque: bool = False) -> TLCResult:
    """Run TLC on spec/<spec>.tla with the cfg text given.  Never raises on property violation."""
    os.makedirs(workdir, exist_ok=True)
    cfgp = os.path.join(workdir, f"{tag}.cfg")
    with open(cfgp, "w") as f:
        f.write(cfg)
    meta = os.path.join(workdir, f"meta_{tag}")
    outp = os.path.join(workdir, f"{tag}.out")
    cmd = ["java", "-XX:+UseParallelGC", f"-Xmx{heap}", "-Xss16m"]
    if deque:
        cmd.append("-Dtlc2.tool.queue.IStateQueue=StateDeque")
    cmd += ["-cp", TLA_CP, "tlc2.TLC", "-workers", str(workers), "-metadir", meta,
            "-noGenerateSpecTE", "-fp", "1", "-seed", str(seed), "-config", cfgp]
    if simulate is not None:
        cmd += ["-simulate", simulate]
    if depth is not None:
        cmd += ["-depth", str(depth)]
    if coverage:
        cmd += ["-coverage", "1"]
    if extra:
        cmd += extra
    specp = spec if os.path.isabs(spec) else os.path.join(SPEC, spec + ".tla")
    cmd.append(specp)
    e = dict(os.environ)
    e.pop("JAVA_TOOL_OPTIONS", None)
    if env:
        e.update({k: str(v) for k, v in env.items()})
    t0 = time.time()
    res = TLCResult()
    with open(outp, "w") as out:
        try:
            p = subprocess.run(cmd, stdout=out, stderr=subprocess.STDOUT, env=e, timeout=timeout,
                               cwd=workdir)
            rc = p.returncode
        except subprocess.TimeoutExpired:
            res.error = f"TLC timeout after {timeout}s"
            rc = -9
    res.wall = time.time() - t0
    with open(outp, errors="replace") as f:
        text = f.read()
    parse_tlc_output(text, res, want_emitted)
    res.raw_tail = text[-3000:]
    res.rc = rc
    res.outpath = outp
    if simulate is not None:
        # simulation never "completes"; ok = no error reported
        m = re.findall(r"The number of states generated: (\d+)", text)
        if m:
            res.generated = int(m[-1])
            res.distinct = res.generated
        res.ok = (res.violated is None and res.error is None and rc in (0,))
    shutil.rmtree(meta, ignore_errors=True)
    return res


def run_tlc_shards(spec: str, cfg_for_shard, nshards: int, *, workdir: str, timeout: int = 1800,
                   heap: str = "2g", seed: int = 0, par: int = NPROC, **kw) -> list:
    """Run nshards single-worker TLC processes in parallel (emission mode)."""
    def one(k):
        return run_tlc(spec, cfg_for_shard(k), workdir=workdir, workers=1, timeout=timeout,
                       heap=heap, seed=seed, tag=f"shard{k}", **kw)
    with ThreadPoolExecutor(max_workers=par) as ex:
        return list(ex.map(one, range(nshards)))


def require_ok(res: TLCResult, what: str):
    if res.violated is None and not res.ok:
        raise MachineryError(f"TLC failed ({what}): {res.error}\n{res.raw_tail[-1500:]}")


# ------------------------------------------------------------------------------------------
# rationals
# ------------------------------------------------------------------------------------------
def R(x):
    """[n, d] -> Fraction, None for undefined (d == 0)."""
    if x is None:
        return None
    n, d = x
    if d == 0:
        return None
    return Fraction(n, d)


def close(a, b, tol=1e-9):
    """float a vs exact Fraction/None b (None <-> NaN)."""
    import math
    if b is None:
        return a is None or (isinstance(a, float) and math.isnan(a)) or (hasattr(a, "dtype") and a != a)
    try:
        fa = float(a)
    except Exception:
        return False
    if math.isnan(fa):
        return False
    fb = float(b)
    return abs(fa - fb) <= tol * max(1.0, abs(fb))


# ------------------------------------------------------------------------------------------
# the Check object
# ------------------------------------------------------------------------------------------
class Check:
    def __init__(self, pid: str, tier: str, seed: int):
        self.pid = pid
        self.tier = tier
        self.seed = seed
        self.t0 = time.time()
        self.tmp = tempfile.mkdtemp(prefix=f"verif_{pid}_")
        self.states = 0
        self.transitions = 0
        self.impl = 0            # TLC states / behaviours / traces executed against fairlearn
        self.evaluations = 0
        self.nontrivial = set()
        self.samples = []
        self.violations = []     # dicts: sig (dict), text, case
        self.known_hits = {}
        self.drift = []
        self.assumptions = []
        self.extra = {}
        self.rule = ""
        self.tlc_runs = []
        self.exhaustive = False
        self.level = "model_checking"
        self.skipped = []
        with open(os.path.join(VERIF, "known_findings.json")) as f:
            kf = json.load(f)
        self.known = [k for k in kf.get("findings", []) if k["property"] == pid]

    @property
    def quick(self):
        return self.tier == "quick"

    def rng(self, *salt):
        h = hashlib.sha256(repr((self.seed, self.pid) + salt).encode()).digest()
        return random.Random(int.from_bytes(h[:8], "big"))

    # --- TLC bookkeeping -------------------------------------------------------------------
    def tlc(self, spec, cfg, what, **kw):
        """Model-check; a violated invariant of the *spec* is a machinery failure (the spec's
        own laws must hold; they do not depend on /repo)."""
        kw.setdefault("workdir", self.tmp)
        kw.setdefault("seed", self.seed)
        res = run_tlc(spec, cfg, **kw)
        self.tlc_runs.append({"what": what, "spec": spec, "generated": res.generated,
                              "distinct": res.distinct, "wall_s": round(res.wall, 2),
                              "ok": res.ok, "violated": res.violated})
        if res.violated is not None:
            raise MachineryError(f"specification law {res.violated} violated in {what}:\n{res.raw_tail[-2500:]}")
        require_ok(res, what)
        self.states += res.distinct
        self.transitions += res.generated
        return res

    def tlc_shards(self, spec, cfg_for_shard, nshards, what, same_space=False, **kw):
        """same_space: every shard explores the whole state space and only the emission is
        sharded (states are then counted once, not per shard)."""
        kw.setdefault("workdir", self.tmp)
        kw.setdefault("seed", self.seed)
        rs = run_tlc_shards(spec, cfg_for_shard, nshards, **kw)
        out = []
        gen = dist = 0
        for r in rs:
            if r.violated is not None:
                raise MachineryError(f"specification law {r.violated} violated in {what}:\n{r.raw_tail[-2500:]}")
            require_ok(r, what)
            gen += r.generated
            dist += r.distinct
            out.extend(r.emitted)
        if same_space:
            gen = max(r.generated for r in rs)
            dist = max(r.distinct for r in rs)
        self.tlc_runs.append({"what": what, "spec": spec, "generated": gen, "distinct": dist,
                              "shards": nshards, "wall_s": round(max(r.wall for r in rs), 2)})
        self.states += dist
        self.transitions += gen
        return out

    # --- trace validation (code -> spec) -----------------------------------------------------
    def validate_traces(self, spec, traces, cfg_text, what, shards=8, diag=True, timeout=1800):
        """Validate recorded traces against a Trace*.tla spec.  Returns (accepted flags, diagnostics).
        Each shard is one TLC run (-workers 1) over a JSON file of traces; a trace is accepted iff
        TLC prints <<"ACCEPT", tid>>.  For rejected traces the longest matched prefix is obtained
        by re-running the trace alone with the spec's Diag invariant (prints <<"AT", tid, l>>)."""
        import re as _re
        n = len(traces)
        if n == 0:
            return [], {}
        shards = max(1, min(shards, n))
        parts = [list(range(k, n, shards)) for k in range(shards)]
        files = []
        for k, idxs in enumerate(parts):
            fp = os.path.join(self.tmp, f"traces_{spec}_{k}.json")
            with open(fp, "w") as f:
                json.dump([traces[i] for i in idxs], f)
            files.append(fp)

        def one(k):
            return run_tlc(spec, cfg_text, workdir=self.tmp, workers=1, timeout=timeout, heap="3g", seed=self.seed,
                           tag=f"trace_{spec}_{k}", env={"TRACE_FILE": files[k]}, want_emitted=False)
        with ThreadPoolExecutor(max_workers=NPROC) as ex:
            rs = list(ex.map(one, range(shards)))
        accepted = [False] * n
        gen = dist = 0
        for k, r in enumerate(rs):
            if r.violated is not None:
                raise MachineryError(f"trace spec invariant {r.violated} violated in {what}:\n{r.raw_tail[-2000:]}")
            require_ok(r, what)
            gen += r.generated
            dist += r.distinct
            for line in r.printed:
                m = _re.match(r'<<"ACCEPT", (\d+)>>', line)
                if m:
                    accepted[parts[k][int(m.group(1)) - 1]] = True
        self.tlc_runs.append({"what": what, "spec": spec, "generated": gen, "distinct": dist, "traces": n,
                              "accepted": sum(accepted), "wall_s": round(max(r.wall for r in rs), 2)})
        self.states += dist
        self.transitions += gen
        diags = {}
        rej = [i for i in range(n) if not accepted[i]][:300]
        if diag and rej:
            fp = os.path.join(self.tmp, f"trace_diag_{spec}.json")
            with open(fp, "w") as f:
                json.dump([traces[i] for i in rej], f)
            r = run_tlc(spec, cfg_text + "INVARIANT Diag\n", workdir=self.tmp, workers=1, timeout=900, heap="3g", seed=self.seed,
                        tag=f"diag_{spec}", env={"TRACE_FILE": fp}, want_emitted=False)
            last = {}
            for line in r.printed:
                m = _re.match(r'<<"AT", (\d+), (\d+)>>', line)
                if m:
                    t_, l_ = int(m.group(1)), int(m.group(2))
                    last[t_] = max(last.get(t_, 0), l_)
            for j, i in enumerate(rej):
                pos = last.get(j + 1, 0)
                ev = traces[i]["events"]
                diags[i] = {"matched_events": pos - 1, "of": len(ev), "next_event": ev[pos - 1] if 0 < pos <= len(ev) else None}
        return accepted, diags

    # --- verdict bookkeeping ---------------------------------------------------------------
    def violation(self, sig: dict, text: str, case=None):
        """sig: structured description (entry point, failing input class ...)."""
        for k in self.known:
            if all(sig.get(a) == b for a, b in k["match"].items()):
                self.known_hits.setdefault(k["id"], [k, 0])
                self.known_hits[k["id"]][1] += 1
                return
        self.violations.append({"sig": sig, "text": text, "case": case})

    def note_drift(self, text):
        if len(self.drift) < 50:
            self.drift.append(text)

    def sample(self, s, cap=4):
        if len(self.samples) < cap:
            self.samples.append(s)

    def nt(self, key):
        self.nontrivial.add(key if isinstance(key, (str, int, tuple)) else json.dumps(key, sort_keys=True, default=str))

    # --- finishing -------------------------------------------------------------------------
    def finish(self) -> int:
        wall = time.time() - self.t0
        evdir = os.environ.get("VERIF_EVIDENCE_DIR") or os.path.join(VERIF, "evidence")
        os.makedirs(os.path.join(evdir, "replay"), exist_ok=True)
        lines = []
        # group violations by signature so the output stays readable
        seen = {}
        for v in self.violations:
            key = json.dumps(v["sig"], sort_keys=True, default=str)
            seen.setdefault(key, []).append(v)
        n = 0
        for key, vs in seen.items():
            n += 1
            path = os.path.join(evdir, "replay", f"{self.pid}_{n}.json")
            with open(path, "w") as f:
                json.dump({"property": self.pid, "sig": vs[0]["sig"], "text": vs[0]["text"],
                           "count": len(vs), "cases": [v["case"] for v in vs[:5]]}, f, indent=1, default=str)
            lines.append(f"VIOLATION property={self.pid} replay={path}")
            print(f"  -> {vs[0]['text']}  [{len(vs)} case(s)] sig={key}")
        for kid, (k, cnt) in self.known_hits.items():
            print(f"KNOWN-FINDING: property={self.pid} {kid}: {k['text']} [{cnt} case(s) this run]")
        for d in self.drift[:10]:
            print(f"NOTE spec_drift: {d}")
        cov = {
            "states": int(self.states),
            "transitions": int(self.transitions),
            "traces_validated_against_impl": int(self.impl),
            "samples": self.samples if self.samples else ["(no sample recorded)"],
            "evaluations": int(max(self.evaluations, self.impl)),
            "distinct_nontrivial": len(self.nontrivial),
            "rule": self.rule,
            "exhaustive": bool(self.exhaustive),
            "tlc_runs": self.tlc_runs,
            "spec_drift": self.drift,
            "known_findings_hit": {k: v[1] for k, v in self.known_hits.items()},
            "skipped_cases": self.skipped[:50],
        }
        cov.update(self.extra)
        ev = {"property_id": self.pid, "tier": self.tier, "seed": int(self.seed), "level": self.level,
              "coverage": cov, "assumptions": self.assumptions, "wall_s": round(wall, 2),
              "violations": len(seen)}
        evp = os.path.join(evdir, f"{self.pid}.json")
        with open(evp, "w") as f:
            json.dump(ev, f, indent=1, default=str)
        try:
            import jsonschema
            with open("/root/.vp/EVIDENCE.schema.json") as f:
                jsonschema.validate(ev, json.load(f))
        except ImportError:
            pass
        except FileNotFoundError:
            pass
        for l in lines:
            print(l)
        print(f"[{self.pid}] tier={self.tier} seed={self.seed} states={self.states} transitions={self.transitions} "
              f"impl_cases={self.impl} violations={len(seen)} known={len(self.known_hits)} wall={wall:.1f}s")
        shutil.rmtree(self.tmp, ignore_errors=True)
        return 1 if seen else 0


# ------------------------------------------------------------------------------------------
# parallel replay
# ------------------------------------------------------------------------------------------
def _init_worker():
    os.environ.setdefault("OMP_NUM_THREADS", "1")
    os.environ.setdefault("MKL_NUM_THREADS", "1")
    os.environ.setdefault("OPENBLAS_NUM_THREADS", "1")
    import warnings
    import logging
    warnings.filterwarnings("ignore")
    logging.disable(logging.WARNING)
    try:
        import torch
        torch.set_num_threads(1)
    except Exception:
        pass


def pmap(fn, items, nproc: int = NPROC - 1, chunksize: int | None = None):
    """Ordered parallel map with fork; fn must be a module-level function."""
    items = list(items)
    if not items:
        return []
    if nproc <= 1 or len(items) < 4:
        _init_worker()
        return [fn(x) for x in items]
    ctx = mp.get_context("fork")
    if chunksize is None:
        chunksize = max(1, min(64, len(items) // (nproc * 8)))
    with ctx.Pool(nproc, initializer=_init_worker) as pool:
        return pool.map(fn, items, chunksize=chunksize)


def setup_repo_path():
    """Make `import fairlearn` resolve to the working tree under test."""
    if REPO not in sys.path:
        sys.path.insert(0, REPO)
    import warnings
    import logging
    warnings.filterwarnings("ignore")
    logging.disable(logging.WARNING)
