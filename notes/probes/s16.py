import numpy as np, warnings, torch
warnings.filterwarnings("ignore")
from fractions import Fraction as Fr
from fairlearn.adversarial import AdversarialFairnessClassifier, AdversarialFairnessRegressor
from fairlearn.adversarial._pytorch_engine import PytorchEngine
from fairlearn.adversarial._adversarial_mitigation import _AdversarialFairness

def make(GP, GA, alpha, lr):
    GP=np.array(GP,float); GA=np.array(GA,float); shape=GP.shape
    class Pred(torch.nn.Module):
        def __init__(s):
            super().__init__(); s.W=torch.nn.Parameter(torch.zeros(shape))
        def forward(s, X): return s.W.reshape(1,-1).expand(X.shape[0], -1)
    class Adv(torch.nn.Module):
        def __init__(s):
            super().__init__(); s.U=torch.nn.Parameter(torch.zeros(shape))
        def forward(s, Z): return Z + s.U.reshape(1,-1)
    gp=torch.tensor(GP.reshape(-1),dtype=torch.float32); ga=torch.tensor(GA.reshape(-1),dtype=torch.float32)
    class Eng(PytorchEngine):
        def get_loss(self, dist_type):
            # called twice: predictor then adversary
            self._k = getattr(self,'_k',0)+1
            if self._k==1: return lambda Yh, Y: (Yh[0]*gp).sum()
            return lambda Ah, A: (Ah[0]*ga).sum()
    est=AdversarialFairnessRegressor(backend=Eng, predictor_model=Pred(), adversary_model=Adv(), predictor_optimizer='SGD', adversary_optimizer='SGD', learning_rate=lr, alpha=alpha, batch_size=-1, random_state=0)
    return est
def spec(GP,GA,alpha):
    GP=[[Fr(v) for v in r] for r in GP]; GA=[[Fr(v) for v in r] for r in GA]
    dot=sum(a*b for ra,rb in zip(GA,GP) for a,b in zip(ra,rb)); nn=sum(a*a for r in GA for a in r)
    return [[ (p - (dot/nn*a if nn else 0) - alpha*a) for p,a in zip(rp,ra)] for rp,ra in zip(GP,GA)]
import itertools
bad=0; tot=0
X=np.zeros((3,2)); y=np.array([0.1,0.5,0.9]); sf=np.array([0.3,0.2,0.7])
rng=np.random.RandomState(0)
for trial in range(60):
    r,c=rng.randint(1,3),rng.randint(1,4)
    GP=rng.randint(-1,2,(r,c)); GA=rng.randint(-1,2,(r,c)); alpha=Fr(int(rng.choice([0,1,2,4])),2)
    est=make(GP,GA,float(alpha),0.5)
    est.partial_fit(X,y,sensitive_features=sf)
    W=est.backendEngine_.predictor_model.W.detach().numpy(); U=est.backendEngine_.adversary_model.U.detach().numpy()
    g=spec(GP.tolist(),GA.tolist(),alpha)
    ref=np.array([[float(-Fr(1,2)*v) for v in row] for row in g])
    tot+=1
    if np.abs(W-ref).max()>2e-6 or np.abs(U-(-0.5*GA)).max()>1e-7:
        bad+=1
        if bad<6: print("BAD",GP.tolist(),GA.tolist(),alpha,W.tolist(),ref.tolist())
print(tot,bad)
est=make([[1,2],[0,1]],[[0,0],[0,0]],1.0,0.5); est.partial_fit(X,y,sensitive_features=sf)
print("GA=0 ->", est.backendEngine_.predictor_model.W.detach().numpy().tolist())
import torch
print(torch.finfo(float).tiny, (torch.zeros(1)+torch.finfo(float).tiny).item(), torch.finfo(torch.float32).tiny)
