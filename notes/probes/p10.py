import numpy as np, pandas as pd, warnings
warnings.filterwarnings("ignore")
from fairlearn.reductions import *
rng=np.random.RandomState(0); bad=0; tot=0
for trial in range(300):
    n=rng.randint(4,12); G=rng.randint(2,4)
    g=rng.randint(0,G,n); y=rng.randint(0,2,n); c=rng.randint(0,2,n)
    X=np.arange(n).reshape(-1,1)
    for cls in [DemographicParity,TruePositiveRateParity,FalsePositiveRateParity,EqualizedOdds,ErrorRateParity]:
        for kw in [dict(difference_bound=0.1), dict(ratio_bound=0.7, ratio_bound_slack=0.05)]:
            for cf in [None, c]:
                m=cls(**kw)
                try:
                    m.load_data(X,y,sensitive_features=g,control_features=cf)
                except Exception as e:
                    print("EXC",cls.__name__,e); continue
                if len(m.index)==0: continue
                lam=pd.Series(rng.rand(len(m.index)),index=m.index)
                h=rng.rand(n); h2=rng.rand(n)
                w=m.signed_weights(lam)
                lhs=lam.dot(m.gamma(lambda X:h))-lam.dot(m.gamma(lambda X:h2))
                rhs=-(w*(h-h2)).sum()/n
                tot+=1
                if abs(lhs-rhs)>1e-9:
                    bad+=1
                    if bad<5: print("BAD",cls.__name__,kw,cf is not None,lhs,rhs)
                pl=m.project_lambda(lam)
                if (pl<0).any(): print("neg proj")
                b=m.bound()
                L1=(lam*(m.gamma(lambda X:h)-b)).sum(); L2=(pl*(m.gamma(lambda X:h)-b)).sum()
                if L2<L1-1e-9: print("proj lowers", cls.__name__, kw, L1, L2)
print(tot,bad)
