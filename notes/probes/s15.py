import numpy as np, itertools, warnings
warnings.filterwarnings("ignore")
from fractions import Fraction as F
from fairlearn.preprocessing import CorrelationRemover
def dot(a,b): return sum(x*y for x,y in zip(a,b))
def resid(Scols, z):
    # exact residual of z after projection on span of centred columns (k<=2)
    n=len(z); cen=[[F(int(v))-F(int(sum(c)),n) for v in c] for c in Scols]
    nz=[c for c in cen if any(v!=0 for v in c)]
    zf=[F(int(v)) for v in z]
    if not nz: return zf
    if len(nz)==1 or dot(nz[0],nz[0])*dot(nz[1],nz[1])-dot(nz[0],nz[1])**2==0:
        v=nz[0]; c=dot(v,zf)/dot(v,v); return [a-c*b for a,b in zip(zf,v)]
    a,b=nz; aa,bb,ab=dot(a,a),dot(b,b),dot(a,b); az,bz=dot(a,zf),dot(b,zf); det=aa*bb-ab*ab
    w1=(az*bb-bz*ab)/det; w2=(bz*aa-az*ab)/det
    return [zi-w1*ai-w2*bi for zi,ai,bi in zip(zf,a,b)]
bad=0; tot=0
for n in [2,3]:
    for vals in itertools.product([0,1,2],repeat=3*n):
        X=np.array(vals,float).reshape(3,n).T   # columns: s1,s2,z
        S=[list(X[:,0]),list(X[:,1])]; z=list(X[:,2])
        r=resid(S,z)
        # zero covariance check (exact)
        for c in S:
            m=F(sum(int(v) for v in c),n)
            assert sum(ri*(F(int(v))-m) for ri,v in zip(r,c))==0
        # compare with numpy using correct centring
        Sc=X[:,:2]-X[:,:2].mean(0); beta=np.linalg.lstsq(Sc,X[:,2:],rcond=None)[0]; ref=(X[:,2:]-Sc@beta).ravel()
        tot+=1
        if np.abs(ref-np.array([float(v) for v in r])).max()>1e-9: bad+=1; print("MISMATCH",vals)
print(tot,bad)
