import numpy as np, warnings, itertools
warnings.filterwarnings("ignore")
from fractions import Fraction as F
from fairlearn.postprocessing import ThresholdOptimizer
from sklearn.base import BaseEstimator, ClassifierMixin
exec(open('p9.py').read().split("SC={")[0].split("rng=")[0].replace("from fairlearn.postprocessing import ThresholdOptimizer",""))
rng=np.random.RandomState(2); bad=0; tot=0
for trial in range(300):
    G=rng.randint(2,4); n=rng.randint(2*G,13); levels=rng.randint(2,5)
    while True:
        g=rng.randint(0,G,n); y=rng.randint(0,2,n)
        if all(set(y[g==k])=={0,1} for k in range(G)): break
    si=rng.randint(0,levels,n); s=si/(levels-1); X=s.reshape(-1,1)
    for obj in ['accuracy_score','balanced_accuracy_score']:
        for flip in [False,True]:
            gs=int(rng.choice([1,2,3,4,5,6,8,10,1000]))
            to=ThresholdOptimizer(estimator=Passthrough(),constraints='equalized_odds',objective=obj,grid_size=gs,flip=flip,prefit=True,predict_method='predict').fit(X,y,sensitive_features=g)
            p=to._pmf_predict(X,sensitive_features=g)[:,1]
            P=y.sum(); N=n-P
            tp=p[y==1].sum(); fp=p[y==0].sum()
            val = (tp+N-fp)/n if obj=='accuracy_score' else 0.5*tp/P+0.5*(N-fp)/N
            if gs>10: continue
            best=None
            for j in range(gs+1):
                x=F(j,gs)
                ymin=min(upper(points([int(v) for v in si[g==k]],[int(v) for v in y[g==k]],flip,'false_positive_rate','true_positive_rate'),x) for k in range(G))
                v = (F(int(P))*ymin+F(int(N))*(1-x))/n if obj=='accuracy_score' else ymin/2+(1-x)/2
                best = v if best is None or v>best else best
            tot+=1
            if abs(float(best)-val)>1e-9:
                bad+=1
                if bad<6: print("BAD",float(best),val,dict(g=g.tolist(),y=y.tolist(),s=si.tolist(),obj=obj,flip=flip,gs=gs))
print(tot,bad)
