import numpy as np, pandas as pd, warnings, traceback
warnings.filterwarnings("ignore")
from sklearn.linear_model import LogisticRegression
from fairlearn.postprocessing import ThresholdOptimizer
rng = np.random.RandomState(0)
n=40
X = pd.DataFrame({'f': rng.randint(0,4,n), 'g': rng.randint(0,2,n)})
sf = rng.choice(['a','b'], n)
y = ((X.f + (sf=='a') + rng.randint(0,2,n))>2).astype(int)
print(type(y), y[:5])
for name, yy, s in [("df0", pd.DataFrame(np.asarray(y)), sf), ("series", pd.Series(np.asarray(y), index=np.arange(n)+100), pd.Series(sf, index=np.arange(n)[::-1])), ("list", list(np.asarray(y)), list(sf))]:
  for c in ['equalized_odds','demographic_parity']:
    to = ThresholdOptimizer(estimator=LogisticRegression(), constraints=c, predict_method='predict_proba')
    try:
        to.fit(X, yy, sensitive_features=s); print(name, c, "ok")
    except BaseException as e:
        print(name, c, "raises", type(e).__name__, e); traceback.print_exc(limit=-3)
