import numpy as np, pandas as pd, warnings, logging
warnings.filterwarnings("ignore"); logging.disable(logging.CRITICAL)
from fairlearn.reductions import *
from sklearn.dummy import DummyClassifier
rng=np.random.RandomState(0); bad=0; tot=0
for trial in range(40):
    G=rng.randint(2,5); n=4*G; g=np.repeat(np.arange(G),4); y=np.tile([0,1,0,1],G)
    X=np.arange(n).reshape(-1,1)
    for cls in [DemographicParity, EqualizedOdds, TruePositiveRateParity, FalsePositiveRateParity, ErrorRateParity]:
        for gs in [2,3,5,7,10,17,33,60]:
            gl=float(rng.choice([0.5,1,2,3.7]))
            s=GridSearch(DummyClassifier(strategy='prior'), cls(), grid_size=gs, grid_limit=gl)
            s.fit(X,y,sensitive_features=g); tot+=1
            L=s.lambda_vecs_
            cols=[tuple(np.round(L[c].values,12)) for c in L.columns]
            if L.shape[1]!=gs or len(set(cols))!=gs or (L.values<0).any() or (L.abs().sum(axis=0)>gl+1e-9).any():
                bad+=1; print("BAD",cls.__name__,gs,gl,G,L.shape,len(set(cols)),L.abs().sum(axis=0).max())
print(tot,bad)
# BGL
for G in [2,3,4]:
    n=4*G; g=np.repeat(np.arange(G),4); y=np.tile([0,1,0.5,1],G); X=np.arange(n).reshape(-1,1)
    from sklearn.linear_model import LinearRegression
    for gs in [2,3,5,10,30]:
        s=GridSearch(LinearRegression(), BoundedGroupLoss(SquareLoss(0,1), upper_bound=0.1), grid_size=gs, grid_limit=2.0)
        s.fit(X,y,sensitive_features=g); L=s.lambda_vecs_
        cols=[tuple(np.round(L[c].values,12)) for c in L.columns]
        print("BGL",G,gs,L.shape,len(set(cols)),(L.values<0).any(),L.abs().sum(axis=0).round(6).unique())
