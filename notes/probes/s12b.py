import numpy as np, pandas as pd, warnings
warnings.filterwarnings("ignore")
from fairlearn.metrics import MetricFrame, count
n=4; yt=np.array([0,1,2,3]); a=np.array(['a','a','b','b']); b=np.array(['x','y','x','y'])
def rec(y_true,y_pred): return sum(2**int(v) for v in y_true)
ref=MetricFrame(metrics=rec,y_true=yt,y_pred=yt,sensitive_features={'s1':a,'s2':b}).by_group.to_dict()
got=MetricFrame(metrics=rec,y_true=yt,y_pred=yt,sensitive_features={'s1':pd.Series(a,index=[3,2,1,0]),'s2':pd.Series(b)}).by_group.to_dict()
print(ref); print(got)
got2=MetricFrame(metrics=rec,y_true=yt,y_pred=yt,sensitive_features=pd.DataFrame({'s1':a,'s2':b},index=[3,2,1,0])).by_group.to_dict(); print(got2)
