import numpy as np, pandas as pd, warnings
warnings.filterwarnings("ignore")
from fairlearn.metrics import *
# C11/C14 single-row weighted
print("sel 1row w:", repr(selection_rate([1],[1],sample_weight=[2])))
print("sel 1row nw:", repr(selection_rate([1],[1])))
print("mean_pred 1row w:", repr(mean_prediction([1],[1],sample_weight=[2])))
print("tpr 1row w:", repr(true_positive_rate([1],[1],sample_weight=[2])))
print("tpr neg only:", repr(true_positive_rate([0,0],[0,1])), repr(false_negative_rate([0,0],[0,1])))
print("count", repr(count([1],[1])))
mf = MetricFrame(metrics=selection_rate, y_true=[1,0,1], y_pred=[1,0,1], sensitive_features=['a','b','b'], sample_params={'sample_weight':[2,1,3]})
print(mf.by_group, type(mf.by_group.iloc[0]))
print(repr(mf.difference()), repr(mf.ratio()), repr(mf.group_min()))
print(repr(demographic_parity_difference([1,0,1],[1,0,1],sensitive_features=['a','b','b'],sample_weight=[2,1,3])))
# pos_label variants
print(true_positive_rate(['x','y','y'],['x','y','x'],pos_label='y'), true_negative_rate(['x','y','y'],['x','y','x'],pos_label='x'))
print(true_positive_rate([-1,1,1],[-1,1,-1]), selection_rate([-1,1,1],[-1,1,-1]))
