import numpy as np, pandas as pd, warnings, itertools
warnings.filterwarnings("ignore")
from fractions import Fraction as F
from fairlearn.postprocessing import ThresholdOptimizer
from sklearn.base import BaseEstimator, ClassifierMixin
class Passthrough(BaseEstimator, ClassifierMixin):
    def fit(self, X, y, **kw): self.fitted_=True; return self
    def predict(self, X): return np.asarray(X)[:,0]
def points(scores, labels, flip, xm, ym):
    # all threshold rules: predict 1 iff score > t for t in cuts (and flipped)
    us = sorted(set(scores))
    cuts = [None]+us  # None => -inf => all 1 ; cut at u => score>u
    pts=[]
    P=sum(labels); N=len(labels)-P; n=len(labels)
    for c in cuts+['inf']:
        for fl in ([False,True] if flip else [False]):
            if c=='inf': pred=[0]*n
            elif c is None: pred=[1]*n
            else: pred=[1 if s>c else 0 for s in scores]
            if fl: pred=[1-p for p in pred]
            tp=sum(1 for p,l in zip(pred,labels) if p==1 and l==1); fp=sum(1 for p,l in zip(pred,labels) if p==1 and l==0)
            tn=N-fp; fn=P-tp
            M={'selection_rate':F(tp+fp,n),'false_positive_rate':F(fp,N),'false_negative_rate':F(fn,P),'true_positive_rate':F(tp,P),'true_negative_rate':F(tn,N),'accuracy_score':F(tp+tn,n),'balanced_accuracy_score':F(tp,2*P)+F(tn,2*N)}
            pts.append((M[xm],M[ym]))
    return pts
def upper(pts, x):
    best=None
    for (x1,y1) in pts:
        if x1==x: best = y1 if best is None or y1>best else best
    for (x1,y1),(x2,y2) in itertools.combinations(pts,2):
        if x1>x2: (x1,y1),(x2,y2)=(x2,y2),(x1,y1)
        if x1<x<x2:
            v=y1+(y2-y1)*(x-x1)/(x2-x1)
            best = v if best is None or v>best else best
    return best
SC={"demographic_parity":"selection_rate","false_positive_rate_parity":"false_positive_rate","false_negative_rate_parity":"false_negative_rate","true_positive_rate_parity":"true_positive_rate","true_negative_rate_parity":"true_negative_rate"}
rng=np.random.RandomState(1); bad=0; tot=0
for trial in range(150):
    G=rng.randint(2,4); n=rng.randint(2*G,12); levels=rng.randint(2,5)
    while True:
        g=rng.randint(0,G,n); y=rng.randint(0,2,n)
        if all(set(y[g==k])=={0,1} for k in range(G)): break
    si=rng.randint(0,levels,n); s=si/(levels-1); X=s.reshape(-1,1)
    for cons in SC:
        for obj in ['accuracy_score','balanced_accuracy_score','selection_rate','true_positive_rate','true_negative_rate']:
            for flip in [False,True]:
                gs=int(rng.choice([1,2,3,4,5,6,8,10]))
                to=ThresholdOptimizer(estimator=Passthrough(),constraints=cons,objective=obj,grid_size=gs,flip=flip,prefit=True,predict_method='predict').fit(X,y,sensitive_features=g)
                p=to._pmf_predict(X,sensitive_features=g)[:,1]
                # expected objective per group under p
                tot+=1
                val=0
                for k in range(G):
                    m=g==k; pk=p[m]; yk=y[m]; nk=m.sum(); P=yk.sum(); N=nk-P
                    tp=pk[yk==1].sum(); fp=pk[yk==0].sum(); tn=N-fp
                    o={'selection_rate':(tp+fp)/nk,'true_positive_rate':tp/P,'true_negative_rate':tn/N,'accuracy_score':(tp+tn)/nk,'balanced_accuracy_score':0.5*tp/P+0.5*tn/N}[obj]
                    val+= nk/n*o
                best=None
                for j in range(gs+1):
                    x=F(j,gs); tot_v=F(0)
                    for k in range(G):
                        m=g==k
                        pts=points([int(v) for v in si[m]],[int(v) for v in y[m]],flip,SC[cons],obj)
                        tot_v+=F(int(m.sum()),n)*upper(pts,x)
                    best = tot_v if best is None or tot_v>best else best
                if abs(float(best)-val)>1e-9:
                    bad+=1
                    if bad<6: print("BAD", float(best), val, dict(g=g.tolist(),y=y.tolist(),s=si.tolist(),cons=cons,obj=obj,flip=flip,gs=gs))
print(tot,bad)
