import numpy as np, pandas as pd, warnings, itertools
warnings.filterwarnings("ignore")
from fairlearn.reductions import *
from fairlearn.metrics import MetricFrame, count, selection_rate, mean_prediction
rng=np.random.RandomState(0)
bad=0
for trial in range(60):
    n=12; G=rng.randint(2,5); g=np.arange(n)%G; y=rng.randint(0,2,n); y[:2]=[0,1]
    X=np.arange(n).reshape(-1,1)
    for cls in [DemographicParity, EqualizedOdds, TruePositiveRateParity]:
        for gs in [2,3,5,7,10,17,33,60]:
            gl=float(rng.choice([0.5,1,2,3.7]))
            from sklearn.dummy import DummyClassifier
            s=GridSearch(DummyClassifier(strategy='prior'), cls(), grid_size=gs, grid_limit=gl)
            try: s.fit(X,y,sensitive_features=g)
            except Exception as e: print("EXC",cls.__name__,gs,gl,G,type(e).__name__,e); bad+=1; continue
            L=s.lambda_vecs_
            cols=[tuple(np.round(L[c].values,12)) for c in L.columns]
            if L.shape[1]!=gs or len(set(cols))!=gs or (L.values<0).any() or (L.abs().sum(axis=0)>gl+1e-9).any():
                bad+=1; print("BAD",cls.__name__,gs,gl,G,L.shape,len(set(cols)),L.abs().sum(axis=0).max())
print("grid bad",bad)
# C18
for trial in range(20):
    n=rng.randint(3,12); yt=rng.randint(0,2,n); yp=rng.randint(0,2,n); g=rng.choice(['a','b','c'],n); c=rng.choice(['u','v'],n)
    for metrics in [selection_rate, {'s':selection_rate,'c':count}]:
        for cf in [None,c]:
            q=[0.1,0.5,0.9]
            try:
                mf=MetricFrame(metrics=metrics,y_true=yt,y_pred=yp,sensitive_features=g,control_features=cf,n_boot=7,ci_quantiles=q,random_state=int(rng.randint(1000)))
            except Exception as e:
                print("EXC18",type(e).__name__,e,dict(n=n,cf=cf is not None,dict=isinstance(metrics,dict))); continue
            for name in ['overall_ci','by_group_ci']:
                v=getattr(mf,name)
                assert len(v)==3
            for fn in ['group_min_ci','group_max_ci','difference_ci','ratio_ci']:
                v=getattr(mf,fn)(); assert len(v)==3
print("c18 done")
