import numpy as np, pandas as pd, logging, itertools
logging.disable(logging.CRITICAL)
from fairlearn.reductions._grid_search._grid_generator import _GridGenerator
def acc(index,maxv,dim,neg,force):
    if index==dim: return [[]]
    if index==dim-1 and force: vals=[-maxv,maxv] if (neg[index] and maxv>0) else [maxv]
    else: vals=list(range(-maxv if neg[index] else 0, maxv+1))
    out=[]
    for v in vals:
        for s in acc(index+1,maxv-abs(v),dim,neg,force): out.append([v]+s)
    return out
def spec(size,dim,neg,force):
    k=0
    while len(acc(0,k,dim,neg,force))<size: k+=1
    return k, acc(0,k,dim,neg,force)[:size]
bad=0; tot=0
for dim in [1,2,3,4]:
    for neg in itertools.product([False,True],repeat=dim):
        for force in [False,True]:
            if force and (dim<2 or any(neg)): continue
            for size in list(range(2,41))+[60,100]:
                idx=pd.Index(range(dim))
                pos=pd.DataFrame(np.eye(dim),index=idx); negb=pd.DataFrame(np.zeros((dim,dim)),index=idx)
                gg=_GridGenerator(size,1.0,pos,negb,pd.Series(list(neg)),force)
                # recover integer points: accumulator
                k,pts=spec(size,dim,list(neg),force)
                got=[list(map(int,e)) for e in gg.accumulator[:size]]
                tot+=1
                if got!=pts: bad+=1; print("DIFF",dim,neg,force,size,got[:3],pts[:3])
print(tot,bad)
