import numpy as np, pandas as pd, warnings, itertools, math
warnings.filterwarnings("ignore")
from fairlearn.metrics import MetricFrame
rng=np.random.RandomState(0); bad=0; tot=0
def wsel(yt,yp,sample_weight=None):
    w=np.ones(len(yp)) if sample_weight is None else np.asarray(sample_weight,float)
    return float((w*(np.asarray(yp)==1)).sum()/w.sum())
def wacc(yt,yp,sample_weight=None):
    w=np.ones(len(yp)) if sample_weight is None else np.asarray(sample_weight,float)
    return float((w*(np.asarray(yp)==np.asarray(yt))).sum()/w.sum())
def eq(a,b):
    a=float(a); b=float(b)
    if math.isnan(a) and math.isnan(b): return True
    return abs(a-b)<1e-12
from collections import Counter
kinds=Counter()
for trial in range(1500):
    n=rng.randint(1,10); nsf=rng.randint(1,3); ncf=rng.randint(0,3)
    yt=rng.randint(0,2,n); yp=rng.randint(0,2,n) if rng.rand()<.7 else np.zeros(n,int); w=rng.randint(1,4,n)
    sfs={f"s{i}":rng.choice(['a','b','c'][:rng.randint(1,4)],n) for i in range(nsf)}
    cfs={f"c{i}":rng.choice(['u','v'],n) for i in range(ncf)}
    use_dict=rng.rand()<0.5; use_w=rng.rand()<0.5
    fns={'sel':wsel,'acc':wacc}
    if use_dict: metrics=fns; sp={k:{'sample_weight':w} for k in fns} if use_w else None
    else: metrics=wsel; sp={'sample_weight':w} if use_w else None
    mf=MetricFrame(metrics=metrics,y_true=yt,y_pred=yp,sensitive_features=sfs,control_features=cfs if ncf else None,sample_params=sp)
    tot+=1
    cnames=list(cfs); snames=list(sfs)
    clevels=list(itertools.product(*[sorted(set(cfs[k])) for k in cnames])) if ncf else [()]
    for ck in clevels:
        cmask=np.ones(n,bool)
        for nm,v in zip(cnames,ck): cmask&=(cfs[nm]==v)
        for mname,f in (fns.items() if use_dict else [('x',wsel)]):
            W=lambda m: (w[m] if use_w else None)
            if not cmask.any():
                continue  # empty control combo: skip in probe
            ov=f(yt[cmask],yp[cmask],sample_weight=W(cmask))
            vals=[]
            for sk in itertools.product(*[sorted(set(sfs[k])) for k in snames]):
                m=cmask.copy()
                for nm,v in zip(snames,sk): m&=(sfs[nm]==v)
                if m.any(): vals.append(f(yt[m],yp[m],sample_weight=W(m)))
            gmin,gmax=min(vals),max(vals)
            def ratio_to():
                rs=[]
                for v in vals:
                    if ov==0: r = float('nan') if v==0 else float('inf')
                    else: r=v/ov
                    rs.append(r)
                out=[]
                for r in rs:
                    if math.isnan(r): continue   # pandas min skips NaN
                    out.append(1/r if r>1 else r)
                return min(out) if out else float('nan')
            exp={('group_min',None):gmin,('group_max',None):gmax,
                 ('difference','between_groups'):gmax-gmin,('difference','to_overall'):max(abs(v-ov) for v in vals),
                 ('ratio','between_groups'):(gmin/gmax if gmax!=0 else float('nan')),('ratio','to_overall'):ratio_to()}
            def get(res):
                if ncf: res=res.loc[ck if len(ck)>1 else ck[0]]
                if use_dict: res=res[mname]
                return res
            for (agg,method),e in exp.items():
                for errors in ['raise','coerce']:
                    try:
                        if agg in('group_min','group_max'): res=getattr(mf,agg)(errors=errors)
                        else: res=getattr(mf,agg)(method=method,errors=errors)
                        got=get(res)
                        if not eq(got,e):
                            kinds[(agg,method,errors,'ncf%d'%ncf,use_dict)]+=1
                            if bad<10: print("BAD",agg,method,errors,got,e,dict(vals=vals,ov=ov,ncf=ncf,nsf=nsf,dict=use_dict))
                            bad+=1
                    except Exception as ex:
                        kinds[(agg,method,errors,'EXC',type(ex).__name__,'ncf%d'%ncf,use_dict)]+=1
                        if bad<10: print("EXC",agg,method,errors,type(ex).__name__,ex)
                        bad+=1
            # inequalities
print(tot,bad)
for k,v in kinds.most_common(): print(v,k)
