import numpy as np, pandas as pd, warnings, traceback
warnings.filterwarnings("ignore")
from sklearn.linear_model import LinearRegression
from sklearn.tree import DecisionTreeRegressor
from fairlearn.reductions import *
rng = np.random.RandomState(1)
n=60
X = pd.DataFrame({'f': rng.randint(0,4,n), 'g': rng.randint(0,2,n)})
sf = rng.choice(['a','b'], n)
y = np.clip((X.f.values/4 + 0.3*(sf=='a') + 0.2*rng.randn(n)),0,1)
for lp in [True, False]:
    eg = ExponentiatedGradient(DecisionTreeRegressor(max_depth=2), BoundedGroupLoss(SquareLoss(0,1), upper_bound=0.02), eps=0.05, run_linprog_step=lp, max_iter=20)
    eg.fit(X, y, sensitive_features=sf)
    print("lp",lp,"weights_ index", eg.weights_.index.tolist(), eg.weights_.values.round(3))
    pm = eg._pmf_predict(X)
    print(pm.columns.tolist())
    p = eg.predict(X, random_state=0)
    # which predictor chosen per row
    chosen = [ [t for t in pm.columns if pm.iloc[i][t]==p[i]] for i in range(5)]
    print(chosen)
