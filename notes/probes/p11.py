import numpy as np, pandas as pd, warnings, itertools, math
warnings.filterwarnings("ignore")
from fairlearn.metrics import MetricFrame, selection_rate, count, mean_prediction
from sklearn.metrics import accuracy_score
rng=np.random.RandomState(0); bad=0; tot=0
def wsel(yt,yp,sample_weight=None):
    w=np.ones(len(yp)) if sample_weight is None else np.asarray(sample_weight,float)
    return float((w*(np.asarray(yp)==1)).sum()/w.sum())
def wacc(yt,yp,sample_weight=None):
    w=np.ones(len(yp)) if sample_weight is None else np.asarray(sample_weight,float)
    return float((w*(np.asarray(yp)==np.asarray(yt))).sum()/w.sum())
def close(a,b):
    if (a is None or (isinstance(a,float) and math.isnan(a))) and (b is None or (isinstance(b,float) and math.isnan(b))): return True
    try: return abs(a-b)<1e-12
    except Exception: return False
for trial in range(600):
    n=rng.randint(1,10); nsf=rng.randint(1,4); ncf=rng.randint(0,3)
    yt=rng.randint(0,2,n); yp=rng.randint(0,2,n); w=rng.randint(1,4,n)
    sfs={f"s{i}":rng.choice(['a','b','c'][:rng.randint(1,4)],n) for i in range(nsf)}
    cfs={f"c{i}":rng.choice(['u','v'],n) for i in range(ncf)}
    use_dict=rng.rand()<0.5; use_w=rng.rand()<0.5
    fns={'sel':wsel,'acc':wacc}
    if use_dict:
        metrics=fns; sp={k:{'sample_weight':w} for k in fns} if use_w else None
    else:
        metrics=wsel; sp={'sample_weight':w} if use_w else None
    try:
        mf=MetricFrame(metrics=metrics,y_true=yt,y_pred=yp,sensitive_features=sfs,control_features=cfs if ncf else None,sample_params=sp)
    except Exception as e:
        print("EXC",type(e).__name__,e); bad+=1; continue
    tot+=1
    names=list(cfs)+list(sfs)
    cols={**cfs,**sfs}
    levels=[sorted(set(cols[k])) for k in names]
    bg=mf.by_group
    # index check
    exp_idx=list(itertools.product(*levels)) if len(names)>1 else levels[0]
    got_idx=list(bg.index)
    if got_idx!=exp_idx:
        bad+=1; print("IDX",got_idx,exp_idx); continue
    for key in exp_idx:
        k=key if isinstance(key,tuple) else (key,)
        mask=np.ones(n,bool)
        for nm,v in zip(names,k): mask&=(cols[nm]==v)
        for mname,f in (fns.items() if use_dict else [('x',wsel)]):
            exp = f(yt[mask],yp[mask],sample_weight=w[mask] if use_w else None) if mask.any() else float('nan')
            got = bg.loc[key][mname] if use_dict else bg.loc[key]
            if not close(float(got),exp): bad+=1; print("CELL",key,got,exp)
    # overall
    if ncf==0:
        for mname,f in (fns.items() if use_dict else [('x',wsel)]):
            exp=f(yt,yp,sample_weight=w if use_w else None); got=mf.overall[mname] if use_dict else mf.overall
            if not close(float(got),exp): bad+=1; print("OVERALL",got,exp)
    # aggregates
    for method in ['between_groups','to_overall']:
        for errors in ['raise','coerce']:
            try:
                d=mf.difference(method=method,errors=errors); r=mf.ratio(method=method,errors=errors)
            except Exception as e:
                bad+=1; print("AGGEXC",method,errors,type(e).__name__,e, dict(n=n,nsf=nsf,ncf=ncf,use_dict=use_dict)); continue
print(tot,bad)
