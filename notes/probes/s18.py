import numpy as np, pandas as pd, warnings
warnings.filterwarnings("ignore")
from fairlearn.metrics import MetricFrame, count
CALLS=[]
def rec(y_true, y_pred):
    CALLS.append(sorted(int(v) for v in y_true)); return float(len(y_true))
n=6; ids=np.arange(n); g=np.array(['a','a','b','b','b','c']); c=np.array(['u','v','u','v','u','v'])
for cf in [None, c]:
    CALLS.clear()
    mf=MetricFrame(metrics=rec, y_true=ids, y_pred=ids, sensitive_features=g, control_features=cf, n_boot=3, ci_quantiles=[0.25,0.5,0.75], random_state=5)
    print("calls", len(CALLS))
    for cidx in CALLS: print("  ", cidx)
    print(mf.overall_ci)
    print([x.to_dict() for x in mf.by_group_ci])
