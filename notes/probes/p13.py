import numpy as np, pandas as pd, warnings, itertools
warnings.filterwarnings("ignore")
from fairlearn.utils._input_validation import _merge_columns, _validate_and_reformat_input
from fairlearn.reductions import DemographicParity, GridSearch, ExponentiatedGradient
from fairlearn.postprocessing import ThresholdOptimizer
from fairlearn.metrics import MetricFrame, count
alph=[",","\\","a","1"]
strs=[""]+alph+["".join(p) for p in itertools.product(alph,repeat=2)]
tups=list(itertools.product(strs,repeat=2))
m=_merge_columns(np.array(tups))
print(len(tups), len(set(m)))
# via validate
sf=pd.DataFrame({'a':['x,','x','x',''], 'b':['y',',y','\\,y','1.0']})
X=np.zeros((4,1))
_,_,s,_=_validate_and_reformat_input(X,[0,1,0,1],sensitive_features=sf)
print(s.tolist())
# numeric-looking mix
sf2=pd.DataFrame({'a':[1,1,2,2], 'b':['1','1.0','1','1']})
_,_,s2,_=_validate_and_reformat_input(X,[0,1,0,1],sensitive_features=sf2); print(s2.tolist())
sf3=np.array([[1,1.5],[1,1.5],[2,1.5],[2,2.5]])
_,_,s3,_=_validate_and_reformat_input(X,[0,1,0,1],sensitive_features=sf3); print(s3.tolist())
# list of lists
_,_,s4,_=_validate_and_reformat_input(X,[0,1,0,1],sensitive_features=[['a','b'],['a','b'],['a',','],['c','d']]); print(s4.tolist())
# TO with tuples
class P: 
    def fit(self,X,y,**k): return self
    def predict(self,X): return np.asarray(X)[:,0]
from sklearn.base import BaseEstimator
class PP(BaseEstimator,P): pass
Xs=np.array([0,1,0,1,0,1,0,1.]).reshape(-1,1); y=[0,1,0,1,1,0,1,0]
sfa=pd.DataFrame({'a':['x,','x,','x,','x,','x','x','x','x'], 'b':['y','y','y','y',',y',',y',',y',',y']})
to=ThresholdOptimizer(estimator=PP(),prefit=True,predict_method='predict').fit(Xs,y,sensitive_features=sfa)
print(list(to.interpolated_thresholder_.interpolation_dict.keys()))
print(to._pmf_predict(Xs,sensitive_features=sfa)[:,1])
