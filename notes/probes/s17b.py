import numpy as np, warnings, torch
warnings.filterwarnings("ignore")
from fairlearn.adversarial import AdversarialFairnessClassifier, AdversarialFairnessRegressor
from fairlearn.adversarial._pytorch_engine import PytorchEngine
class NoTrain(PytorchEngine):
    def train_step(self, X, Y, A): return (0.0, 0.0)
class Id(torch.nn.Module):
    def __init__(s,k=1): super().__init__(); s.d=torch.nn.Parameter(torch.zeros(1)); s.k=k
    def forward(s,X): return X[:, :s.k]
for labels in [[0,1],[1,2],[-1,1],['no','yes'],['b','a']]:
    raw=np.array([0,0.25,0.5,0.75,1.0,0.4999,0.5001]).reshape(-1,1)
    Xtr=np.array([[0.2],[0.8],[0.4],[0.6]]); ytr=np.array([labels[0],labels[1],labels[0],labels[1]]); sf=np.array([0,1,1,0])
    est=AdversarialFairnessClassifier(backend=NoTrain, predictor_model=Id(), adversary_model=Id(), predictor_optimizer='SGD', adversary_optimizer='SGD', learning_rate=0.1, random_state=1)
    est.fit(Xtr,ytr,sensitive_features=sf)
    print(labels, est.predict(raw).tolist(), est.classes_)
# multiclass
Xtr=np.eye(3); ytr=np.array(['c','a','b']); sf=np.array([0,1,1])
est=AdversarialFairnessClassifier(backend=NoTrain, predictor_model=Id(3), adversary_model=Id(1), predictor_optimizer='SGD', adversary_optimizer='SGD', random_state=1)
est.fit(Xtr,ytr,sensitive_features=sf)
raw=np.array([[0.1,0.7,0.2],[0.5,0.5,0.1],[0.2,0.2,0.6],[0.3,0.3,0.3]])
print(est.predict(raw).tolist(), est.classes_)
# regression
est=AdversarialFairnessRegressor(backend=NoTrain, predictor_model=Id(1), adversary_model=Id(1), predictor_optimizer='SGD', adversary_optimizer='SGD', random_state=1)
est.fit(np.array([[0.1],[0.2],[0.3]]), np.array([0.5,1.5,2.5]), sensitive_features=np.array([0.1,0.2,0.9]))
print(est.predict(np.array([[0.3],[7.5]])).tolist())
