import numpy as np, pandas as pd, warnings, itertools
warnings.filterwarnings("ignore")
from fairlearn.postprocessing import ThresholdOptimizer
from sklearn.base import BaseEstimator, ClassifierMixin
class Passthrough(BaseEstimator, ClassifierMixin):
    def fit(self, X, y, **kw): self.fitted_=True; return self
    def predict(self, X): return np.asarray(X)[:,0]
rng = np.random.RandomState(0)
bad=0; tot=0
worst=0
for trial in range(400):
    G = rng.randint(2,4); n = rng.randint(2*G, 14)
    levels = rng.randint(2,5)
    while True:
        g = rng.randint(0,G,n); y = rng.randint(0,2,n)
        if all(set(y[g==k])=={0,1} for k in range(G)): break
    s = rng.randint(0,levels,n)/ (levels-1)
    X = s.reshape(-1,1)
    for cons in ['demographic_parity','false_positive_rate_parity','false_negative_rate_parity','true_positive_rate_parity','true_negative_rate_parity','equalized_odds']:
        for obj in (['accuracy_score','balanced_accuracy_score'] if cons=='equalized_odds' else ['accuracy_score','balanced_accuracy_score','selection_rate','true_positive_rate','true_negative_rate']):
            for flip in [False, True]:
                gs = int(rng.choice([1,2,3,4,5,7,10,1000]))
                to = ThresholdOptimizer(estimator=Passthrough(), constraints=cons, objective=obj, grid_size=gs, flip=flip, prefit=True, predict_method='predict')
                try:
                    to.fit(X, y, sensitive_features=g)
                except Exception as e:
                    print("EXC", type(e).__name__, e, dict(g=g.tolist(), y=y.tolist(), s=s.tolist(), cons=cons, obj=obj, flip=flip, gs=gs)); bad+=1; continue
                p = to._pmf_predict(X, sensitive_features=g)[:,1]
                tot+=1
                def rate(mask): return p[mask].mean()
                vals=[]
                for k in range(G):
                    m = g==k
                    if cons in('demographic_parity',): v=(rate(m),)
                    elif cons=='false_positive_rate_parity': v=(rate(m&(y==0)),)
                    elif cons=='true_negative_rate_parity': v=(1-rate(m&(y==0)),)
                    elif cons=='true_positive_rate_parity': v=(rate(m&(y==1)),)
                    elif cons=='false_negative_rate_parity': v=(1-rate(m&(y==1)),)
                    else: v=(rate(m&(y==0)), rate(m&(y==1)))
                    vals.append(v)
                vals=np.array(vals); spread=(vals.max(0)-vals.min(0)).max()
                if not np.all(np.isfinite(p)) or p.min()<-1e-12 or p.max()>1+1e-12 or spread>1e-9:
                    bad+=1
                    if bad<8: print("BAD", spread, p.round(3).tolist(), dict(g=g.tolist(), y=y.tolist(), s=s.tolist(), cons=cons, obj=obj, flip=flip, gs=gs))
                worst=max(worst, spread if np.isfinite(spread) else 9)
print(tot, bad, worst)
