import numpy as np, warnings, torch
warnings.filterwarnings("ignore")
from fairlearn.adversarial import AdversarialFairnessClassifier, AdversarialFairnessRegressor
from fairlearn.adversarial._pytorch_engine import PytorchEngine
LOG=[]
class Rec(PytorchEngine):
    def train_step(self, X, Y, A):
        LOG.append(("step", [int(v) for v in X[:,0].tolist()]))
        return super().train_step(X, Y, A)
def run(n,bs,epochs,max_iter,stop_at):
    LOG.clear()
    X=np.column_stack([np.arange(n), np.ones(n)]).astype(float); y=(np.arange(n)%2); y[:2]=[0,1]; sf=((np.arange(n)//2)%2)
    if n==1: return None
    def cb(est, step, **kw):
        LOG.append(("cb",step)); return step==stop_at
    est=AdversarialFairnessClassifier(backend=Rec, predictor_model=[2], adversary_model=[2], predictor_optimizer='SGD', adversary_optimizer='SGD', learning_rate=0.1, epochs=epochs, batch_size=bs, callbacks=[cb], random_state=1)
    est.max_iter=max_iter
    est.fit(X,y,sensitive_features=sf)
    return est.n_iter_, list(LOG)
print(run(5,2,2,-1,0))
print(run(5,2,-1,4,0))
print(run(5,-1,3,-1,2))
print(run(7,3,2,5,0))
# predict forced raw
class Id(torch.nn.Module):
    def __init__(s): super().__init__(); s.d=torch.nn.Parameter(torch.zeros(1))
    def forward(s,X): return X[:, :1] + 0*s.d
for labels in [[0,1],[1,2],[-1,1],['no','yes'],['b','a']]:
    raw=np.array([0,0.25,0.5,0.75,1.0,0.4999,0.5001]).reshape(-1,1)
    Xtr=np.array([[0.2],[0.8],[0.4],[0.6]]); ytr=np.array([labels[0],labels[1],labels[0],labels[1]]); sf=np.array([0,1,1,0])
    est=AdversarialFairnessClassifier(backend='torch', predictor_model=Id(), adversary_model=[2], predictor_optimizer='SGD', adversary_optimizer='SGD', learning_rate=0.1, random_state=1)
    est.partial_fit(Xtr,ytr,classes=np.unique(ytr),sensitive_features=sf)
    print(labels, est.predict(raw).tolist(), est._raw_predict(raw).ravel().tolist(), est.classes_)
