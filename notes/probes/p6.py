import numpy as np, pandas as pd, warnings, traceback, torch
warnings.filterwarnings("ignore")
from fairlearn.adversarial import AdversarialFairnessClassifier, AdversarialFairnessRegressor
rng = np.random.RandomState(1)
n=10
X = rng.randn(n,3)
sf = rng.choice([0,1], n)
y = rng.choice([0,1], n)
def mk(**kw):
    d = dict(backend='torch', predictor_model=[4], adversary_model=[3], predictor_optimizer='SGD', adversary_optimizer='SGD', learning_rate=0.1, alpha=0.7, epochs=1, batch_size=4, random_state=3)
    d.update(kw)
    return AdversarialFairnessClassifier(**d)
calls=[]
def cb(est, step, **kw):
    calls.append(step); return False
m = mk(callbacks=cb, epochs=2)
m.fit(X,y,sensitive_features=sf)
print("n_iter", m.n_iter_, "calls", calls)
w1 = [p.detach().clone() for p in m.backendEngine_.predictor_model.parameters()]
print([tuple(p.shape) for p in w1])
# refit
m.fit(X,y,sensitive_features=sf)
w2 = [p.detach().clone() for p in m.backendEngine_.predictor_model.parameters()]
print("refit same as first fit:", all(torch.equal(a,b) for a,b in zip(w1,w2)))
m2 = mk(callbacks=cb, epochs=2); m2.fit(X,y,sensitive_features=sf)
w3 = [p.detach().clone() for p in m2.backendEngine_.predictor_model.parameters()]
print("fresh same as first fit:", all(torch.equal(a,b) for a,b in zip(w1,w3)))
# max_iter
calls.clear()
m3 = mk(callbacks=cb, epochs=5); m3.max_iter=4; m3.fit(X,y,sensitive_features=sf); print("max_iter=4:", m3.n_iter_, calls)
calls.clear()
m3 = mk(callbacks=cb, epochs=-1, batch_size=-1); m3.max_iter=4; m3.fit(X,y,sensitive_features=sf); print("epochs=-1,max_iter=4,bs=-1:", m3.n_iter_, calls)
print(m3.predict(X), m3._raw_predict(X).ravel().round(2))
# string labels
ys = np.array(['no','yes'])[y]
m4 = mk(); m4.fit(X, ys, sensitive_features=sf); print(m4.predict(X), m4.classes_)
# partial_fit equivalence
m5 = mk(epochs=1); m5.fit(X,y,sensitive_features=sf)
m6 = mk(epochs=1)
for b in range(3):
    sl = slice(b*4, min((b+1)*4, n))
    m6.partial_fit(X[sl], y[sl], classes=[0,1], sensitive_features=sf[sl])
w5 = [p.detach().clone() for p in m5.backendEngine_.predictor_model.parameters()]
w6 = [p.detach().clone() for p in m6.backendEngine_.predictor_model.parameters()]
print("fit==partial_fit seq:", all(torch.allclose(a,b) for a,b in zip(w5,w6)), [ (a-b).abs().max().item() for a,b in zip(w5,w6)])
