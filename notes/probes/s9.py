import numpy as np, pandas as pd, warnings, itertools, logging
warnings.filterwarnings("ignore"); logging.disable(logging.CRITICAL)
from sklearn.base import BaseEstimator, ClassifierMixin, RegressorMixin
from fairlearn.reductions import *
class Exact(BaseEstimator, ClassifierMixin):
    def fit(self, X, y, sample_weight=None):
        X=np.asarray(X)[:,0]; y=np.asarray(y); w=np.ones(len(y)) if sample_weight is None else np.asarray(sample_weight,float)
        self.table_={v: int((w[(X==v)&(y==1)]).sum() > (w[(X==v)&(y==0)]).sum()) for v in np.unique(X)}
        return self
    def predict(self, X): return np.array([self.table_.get(v,0) for v in np.asarray(X)[:,0]])
class WMean(BaseEstimator, RegressorMixin):
    def fit(self, X, y, sample_weight=None):
        X=np.asarray(X)[:,0]; y=np.asarray(y,float); w=np.ones(len(y)) if sample_weight is None else np.asarray(sample_weight,float)
        self.table_={}
        for v in np.unique(X):
            m=X==v; sw=w[m].sum()
            self.table_[v]= (w[m]*y[m]).sum()/sw if sw>0 else 0.0
        return self
    def predict(self, X): return np.array([self.table_.get(v,0.) for v in np.asarray(X)[:,0]])
rng=np.random.RandomState(0); bad=0; tot=0
for trial in range(60):
    n=rng.randint(8,14); Fv=rng.randint(2,5); G=rng.randint(2,4)
    X=rng.randint(0,Fv,n).reshape(-1,1).astype(float); g=np.arange(n)%G; y=rng.randint(0,2,n)
    F=sorted(set(X[:,0])); Xq=np.array(F).reshape(-1,1)
    for cls in [DemographicParity, EqualizedOdds, ErrorRateParity]:
        kw=dict(difference_bound=0.1) if rng.rand()<.5 else dict(ratio_bound=0.8)
        gs=int(rng.choice([2,5,9,20])); gl=float(rng.choice([0.5,2.0,3.0])); cw=float(rng.choice([0,0.3,0.5,1]))
        s=GridSearch(Exact(), cls(**kw), grid_size=gs, grid_limit=gl, constraint_weight=cw)
        s.fit(X,y,sensitive_features=g); tot+=1
        m=cls(**kw); m.load_data(X,y,sensitive_features=g); e=ErrorRate(); e.load_data(X,y,sensitive_features=g)
        T=[]
        for bits in itertools.product([0,1],repeat=len(F)):
            h=lambda Z,bits=bits: np.array([bits[F.index(v)] for v in np.asarray(Z)[:,0]])
            T.append((bits,e.gamma(h).iloc[0],m.gamma(h)))
        idx={b:i for i,(b,_,_) in enumerate(T)}
        losses=[]
        for i,c in enumerate(s.lambda_vecs_.columns):
            lam=s.lambda_vecs_[c]
            bits=tuple(int(v) for v in s.predictors_[i].predict(Xq)); _,eh,gh=T[idx[bits]]
            val=eh+(lam*gh).sum(); best=min(e2+(lam*g2).sum() for _,e2,g2 in T)
            if val>best+1e-9: bad+=1; print("NOT BR",cls.__name__,kw,val,best)
            if abs(s.objectives_[i]-eh)>1e-12 or (s.gammas_[c]-gh).abs().max()>1e-12: bad+=1; print("REC mismatch")
            losses.append((1-cw)*eh+cw*gh.max())
        if losses[s.best_idx_]>min(losses)+1e-12: bad+=1; print("SEL")
        if not np.array_equal(s.predict(X), s.predictors_[s.best_idx_].predict(X)): bad+=1; print("PRED")
    # BGL
    yr=rng.randint(0,5,n)/4
    for gs in [3,8]:
        s=GridSearch(WMean(), BoundedGroupLoss(SquareLoss(0,1),upper_bound=0.1), grid_size=gs, grid_limit=2.0, constraint_weight=0.5)
        s.fit(X,yr,sensitive_features=g); tot+=1
        m=BoundedGroupLoss(SquareLoss(0,1),upper_bound=0.1); m.load_data(X,yr,sensitive_features=g)
        for i,c in enumerate(s.lambda_vecs_.columns):
            lam=s.lambda_vecs_[c]; w=m.signed_weights(lam).values
            pred=s.predictors_[i].predict(X)
            # closed form weighted mean per feature value
            for v in F:
                mk=X[:,0]==v
                if w[mk].sum()>0:
                    ref=(w[mk]*yr[mk]).sum()/w[mk].sum()
                    if abs(pred[mk][0]-ref)>1e-9: bad+=1; print("BGL BR", pred[mk][0], ref)
            gm=m.gamma(lambda Z: pred)
            if (s.gammas_[c]-gm).abs().max()>1e-12: bad+=1; print("BGL REC")
print(tot,bad)
