import numpy as np, pandas as pd, warnings, logging
warnings.filterwarnings("ignore"); logging.disable(logging.CRITICAL)
from sklearn.base import BaseEstimator, RegressorMixin
from fairlearn.reductions import *
class WMean(BaseEstimator, RegressorMixin):
    def fit(self, X, y, sample_weight=None):
        X=np.asarray(X)[:,0]; y=np.asarray(y,float); w=np.ones(len(y)) if sample_weight is None else np.asarray(sample_weight,float)
        self.table_={}
        for v in np.unique(X):
            m=X==v; sw=w[m].sum(); self.table_[v]=(w[m]*y[m]).sum()/sw if sw>0 else 0.0
        return self
    def predict(self, X): return np.array([self.table_.get(v,0.) for v in np.asarray(X)[:,0]])
rng=np.random.RandomState(0); found=0; tot=0
for trial in range(300):
    n=rng.randint(6,14); Fv=rng.randint(2,4); G=rng.randint(2,4)
    X=rng.randint(0,Fv,n).reshape(-1,1).astype(float); g=np.arange(n)%G; y=rng.randint(0,5,n)/4
    ub=float(rng.choice([0.01,0.05,0.1,0.2])); eps=float(rng.choice([0.01,0.05,0.2])); lp=bool(rng.rand()<.5); mi=int(rng.choice([5,10,20]))
    eg=ExponentiatedGradient(WMean(), BoundedGroupLoss(SquareLoss(0,1),upper_bound=ub), eps=eps, max_iter=mi, nu=1e-6, run_linprog_step=lp)
    eg.fit(X,y,sensitive_features=g); tot+=1
    idx=eg.weights_.index.tolist()
    if idx!=sorted(idx):
        found+=1
        if found<=3:
            print("unordered", idx, eg.weights_.values.round(3).tolist(), "lp",lp)
            pm=eg._pmf_predict(X)
            # frequency test row 0: which predictor chosen
            vals=pm.iloc[0,:].values
            from collections import Counter
            c=Counter()
            for s in range(3000):
                p=eg.predict(X[:1], random_state=s)[0]
                hit=[t for t in pm.columns if abs(pm.iloc[0][t]-p)<1e-15]
                c[tuple(hit)]+=1
            print({k:v/3000 for k,v in c.items()}, "weights by id", {int(t):round(float(eg.weights_[t]),3) for t in pm.columns}, "outputs", vals.round(3).tolist())
print(tot,found)
