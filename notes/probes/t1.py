import numpy as np, pandas as pd, warnings, time
warnings.filterwarnings("ignore")
from fairlearn.metrics import MetricFrame, selection_rate, demographic_parity_difference
from fairlearn.postprocessing import ThresholdOptimizer
from fairlearn.reductions import *
from sklearn.base import BaseEstimator, ClassifierMixin
class Passthrough(BaseEstimator, ClassifierMixin):
    def fit(self, X, y, **kw): self.fitted_=True; return self
    def predict(self, X): return np.asarray(X)[:,0]
class Exact(BaseEstimator, ClassifierMixin):
    def fit(self, X, y, sample_weight=None):
        X=np.asarray(X)[:,0]; y=np.asarray(y); w=np.ones(len(y)) if sample_weight is None else np.asarray(sample_weight)
        self.table_={v: int((w[(X==v)&(y==1)]).sum() > (w[(X==v)&(y==0)]).sum()) for v in np.unique(X)}
        return self
    def predict(self, X): return np.array([self.table_.get(v,0) for v in np.asarray(X)[:,0]])
rng=np.random.RandomState(0); n=8
yt=rng.randint(0,2,n); yp=rng.randint(0,2,n); g=rng.randint(0,2,n); w=rng.randint(1,3,n)
t=time.time()
for _ in range(200): MetricFrame(metrics=selection_rate,y_true=yt,y_pred=yp,sensitive_features=g,sample_params={'sample_weight':w})
print("MF 1sf", (time.time()-t)/200)
t=time.time()
for _ in range(100): MetricFrame(metrics={'a':selection_rate,'b':selection_rate},y_true=yt,y_pred=yp,sensitive_features={'s1':g,'s2':yt},control_features={'c':yp})
print("MF 2sf1cf dict", (time.time()-t)/100)
t=time.time()
for _ in range(200): demographic_parity_difference(yt,yp,sensitive_features=g)
print("dpd", (time.time()-t)/200)
X=(rng.randint(0,3,n)/2).reshape(-1,1); y=np.array([0,1,0,1,1,0,1,0]); g=np.array([0,0,0,0,1,1,1,1])
t=time.time()
for _ in range(100): ThresholdOptimizer(estimator=Passthrough(),prefit=True,predict_method='predict',grid_size=4).fit(X,y,sensitive_features=g)
print("TO fit", (time.time()-t)/100)
t=time.time()
for _ in range(100):
    m=DemographicParity(); m.load_data(X,y,sensitive_features=g); m.gamma(lambda X: y)
print("moment load+gamma", (time.time()-t)/100)
t=time.time()
for _ in range(10): ExponentiatedGradient(Exact(), DemographicParity(difference_bound=0.1), eps=0.1, max_iter=10, nu=1e-3).fit(X,y,sensitive_features=g)
print("EG fit", (time.time()-t)/10)
t=time.time()
for _ in range(10): GridSearch(Exact(), DemographicParity(), grid_size=10).fit(X,y,sensitive_features=g)
print("GS fit", (time.time()-t)/10)
