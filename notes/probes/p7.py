import numpy as np, warnings, torch, copy
warnings.filterwarnings("ignore")
from fairlearn.adversarial import AdversarialFairnessClassifier
rng = np.random.RandomState(1)
n=6
X = rng.randn(n,3); sf = rng.choice([0,1], n); y = rng.choice([0,1], n); y[0]=0;y[1]=1; sf[0]=0; sf[1]=1
lr=0.1; alpha=0.7
m = AdversarialFairnessClassifier(backend='torch', predictor_model=[4], adversary_model=[3], predictor_optimizer='SGD', adversary_optimizer='SGD', learning_rate=lr, alpha=alpha, epochs=1, batch_size=-1, random_state=3)
# first do partial_fit once to init, then snapshot, then another step
m.partial_fit(X, y, classes=[0,1], sensitive_features=sf)
eng = m.backendEngine_
P = copy.deepcopy(eng.predictor_model); A = copy.deepcopy(eng.adversary_model)
before = [p.detach().clone() for p in eng.predictor_model.parameters()]
beforeA = [p.detach().clone() for p in eng.adversary_model.parameters()]
m.partial_fit(X, y, sensitive_features=sf)
after = [p.detach().clone() for p in eng.predictor_model.parameters()]
afterA = [p.detach().clone() for p in eng.adversary_model.parameters()]
# independent computation
Xt = torch.tensor(X).float(); Yt = torch.tensor(y).float().reshape(-1,1); At = torch.tensor(sf).float().reshape(-1,1)
P.train(); A.train()
yh = P(Xt); LP = torch.nn.BCELoss()(yh, Yt)
gLP = torch.autograd.grad(LP, list(P.parameters()), retain_graph=True)
LA = torch.nn.BCELoss()(A(yh), At)
gLA = torch.autograd.grad(LA, list(P.parameters()), retain_graph=True)
gLA_A = torch.autograd.grad(LA, list(A.parameters()))
for i,(b,a) in enumerate(zip(before, after)):
    g_impl = (b-a)/lr
    u = gLA[i]/(gLA[i].norm()+1e-300)
    g_ref = gLP[i] - (u*gLP[i]).sum()*u - alpha*gLA[i]
    ortho = ((g_impl + alpha*gLA[i])*gLA[i]).sum().item()
    print(i, tuple(b.shape), "max|impl-ref|", (g_impl-g_ref).abs().max().item(), "ortho resid", ortho)
for i,(b,a) in enumerate(zip(beforeA, afterA)):
    print("adv", i, ((b-a)/lr - gLA_A[i]).abs().max().item())
