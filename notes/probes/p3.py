import numpy as np, pandas as pd, warnings, pickle
warnings.filterwarnings("ignore")
from sklearn.base import clone
from sklearn.tree import DecisionTreeClassifier
from sklearn.linear_model import LogisticRegression, LinearRegression
from fairlearn.reductions import *
from fairlearn.postprocessing import ThresholdOptimizer
from fairlearn.preprocessing import CorrelationRemover
rng = np.random.RandomState(0)
n=40
X = pd.DataFrame({'f': rng.randint(0,4,n), 'g': rng.randint(0,2,n)})
sf = rng.choice(['a','b'], n)
y = ((X.f + (sf=='a') + rng.randint(0,2,n))>2).astype(int)

# C19 EG
eg = ExponentiatedGradient(DecisionTreeClassifier(max_depth=2), DemographicParity(), eps=0.05)
p0 = eg.get_params(deep=False)
r = eg.fit(X, y, sensitive_features=sf)
print("EG fit returns self:", r is eg, " nu before/after:", p0['nu'], eg.get_params(deep=False)['nu'])
try:
    eg.fit(X, y, sensitive_features=sf); print("EG refit ok")
except BaseException as e: print("EG refit raises", type(e).__name__, e)
try:
    c = clone(eg); c.fit(X,y,sensitive_features=sf); print("EG clone-after-fit fit ok")
except BaseException as e: print("EG clone-after-fit raises", type(e).__name__, e)

gs = GridSearch(DecisionTreeClassifier(max_depth=2), DemographicParity(), grid_size=5)
r = gs.fit(X, y, sensitive_features=sf)
print("GS fit returns:", r)
try:
    gs.fit(X, y, sensitive_features=sf); print("GS refit ok")
except BaseException as e: print("GS refit raises", type(e).__name__, e)

to = ThresholdOptimizer(estimator=LogisticRegression(), constraints='equalized_odds', predict_method='predict_proba')
try:
    r = to.fit(X, pd.DataFrame({'label': y}), sensitive_features=sf); print("TO EO df-y ok", r is to)
except BaseException as e: print("TO EO named-df y raises", type(e).__name__, e)
try:
    r = to.fit(X, pd.DataFrame(y), sensitive_features=sf); print("TO EO df-y(0) ok", r is to)
except BaseException as e: print("TO EO df y raises", type(e).__name__, e)
try:
    r = to.fit(X, pd.Series(y, index=np.arange(n)+100), sensitive_features=pd.Series(sf, index=np.arange(n)[::-1])); print("TO EO series-y ok", r is to)
except BaseException as e: print("TO EO series y raises", type(e).__name__, e)

# C15
Xm = rng.randn(30,5); Xm[:,1] += 3; Xm[:,0] -= 2
cr = CorrelationRemover(sensitive_feature_ids=[0,1])
out = cr.fit_transform(Xm)
S = Xm[:,[0,1]]
print("cov with S:", np.abs(((out-out.mean(0)).T @ (S-S.mean(0)))/30).max(), "sensitive_mean_", cr.sensitive_mean_)
cr1 = CorrelationRemover(sensitive_feature_ids=[0])
out = cr1.fit_transform(Xm); S=Xm[:,[0]]
print("cov with S (1 col):", np.abs(((out-out.mean(0)).T @ (S-S.mean(0)))/30).max())
