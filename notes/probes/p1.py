import numpy as np, pandas as pd, warnings
warnings.filterwarnings("ignore")
from fairlearn.reductions import TruePositiveRateParity, DemographicParity, EqualizedOdds, ErrorRateParity, FalsePositiveRateParity
X = np.arange(8).reshape(-1,1)
y = [1,0,1,0,1,1,0,0]
sf = ['a','a','b','b','a','b','a','b']
cf = ['u','u','u','u','v','v','v','v']
m = TruePositiveRateParity()
m.load_data(X, y, sensitive_features=sf, control_features=cf)
print(m.tags)
print(m.index.tolist())
print(m.prob_event)
g = m.gamma(lambda X: np.array([1,1,0,0,1,0,1,0]))
print(g)
m = TruePositiveRateParity(ratio_bound=0.8)
m.load_data(X, y, sensitive_features=sf)
print(m.index.tolist())
print(m.gamma(lambda X: np.array([1,1,0,0,1,0,1,0])))
