import numpy as np, warnings
warnings.filterwarnings("ignore")
import fairlearn.metrics as fm
rng=np.random.RandomState(0); bad=0; tot=0
names=['demographic_parity_difference','demographic_parity_ratio','equalized_odds_difference','equalized_odds_ratio','equal_opportunity_difference','equal_opportunity_ratio',
 'true_positive_rate_difference','false_positive_rate_ratio','selection_rate_difference','accuracy_score_group_min','zero_one_loss_group_max','precision_score_group_min','recall_score_group_min','f1_score_group_min','balanced_accuracy_score_group_min','mean_absolute_error_group_max','mean_squared_error_group_max','accuracy_score_difference','accuracy_score_ratio','zero_one_loss_difference','zero_one_loss_ratio','true_negative_rate_difference','false_negative_rate_ratio','selection_rate_ratio']
for trial in range(300):
    n=rng.randint(2,9); G=rng.randint(1,4); g=rng.randint(0,G,n); yt=rng.randint(0,2,n); yp=rng.randint(0,2,n); w=rng.randint(1,4,n)
    rep=np.repeat(np.arange(n),w)
    for nm in names:
        f=getattr(fm,nm)
        for kw in [{} , {'method':'to_overall'}] if ('difference' in nm or 'ratio' in nm) else [{}]:
            try:
                a=f(yt,yp,sensitive_features=g,sample_weight=w,**kw); b=f(yt[rep],yp[rep],sensitive_features=g[rep],**kw); c=f(yt,yp,sensitive_features=g,sample_weight=w*2.5,**kw)
                d=f(yt,yp,sensitive_features=g,**kw); e=f(yt,yp,sensitive_features=g,sample_weight=np.ones(n),**kw)
            except Exception as ex:
                print("EXC",nm,type(ex).__name__,str(ex)[:80]); bad+=1; continue
            tot+=1
            def eq(x,y): 
                x=float(x); y=float(y); return (np.isnan(x) and np.isnan(y)) or abs(x-y)<1e-9
            if not(eq(a,b) and eq(a,c) and eq(d,e)):
                bad+=1
                if bad<12: print("BAD",nm,kw,a,b,c,d,e,dict(g=g.tolist(),yt=yt.tolist(),yp=yp.tolist(),w=w.tolist()))
print(tot,bad)
