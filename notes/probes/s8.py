import numpy as np, pandas as pd, warnings, itertools, logging
warnings.filterwarnings("ignore"); logging.disable(logging.CRITICAL)
from scipy.optimize import linprog
from sklearn.base import BaseEstimator, ClassifierMixin
from fairlearn.reductions import *
class Exact(BaseEstimator, ClassifierMixin):
    def fit(self, X, y, sample_weight=None):
        X=np.asarray(X)[:,0]; y=np.asarray(y); w=np.ones(len(y)) if sample_weight is None else np.asarray(sample_weight,float)
        self.table_={v: int((w[(X==v)&(y==1)]).sum() > (w[(X==v)&(y==0)]).sum()) for v in np.unique(X)}
        return self
    def predict(self, X): return np.array([self.table_.get(v,0) for v in np.asarray(X)[:,0]])
def table(cls, kw, X, y, g):
    F=sorted(set(X[:,0])); res=[]
    for bits in itertools.product([0,1],repeat=len(F)):
        m=cls(**kw); m.load_data(X,y,sensitive_features=g)
        e=ErrorRate(); e.load_data(X,y,sensitive_features=g)
        h=lambda Z,bits=bits: np.array([bits[F.index(v)] for v in np.asarray(Z)[:,0]])
        res.append((bits, e.gamma(h).iloc[0], m.gamma(h), m.bound()))
    return res
rng=np.random.RandomState(0); bad=0; tot=0; worst=-1
for trial in range(120):
    n=rng.randint(6,14); Fv=rng.randint(2,5); G=rng.randint(2,4)
    X=rng.randint(0,Fv,n).reshape(-1,1).astype(float); g=rng.randint(0,G,n); y=rng.randint(0,2,n)
    g[:G]=np.arange(G)
    for cls in [DemographicParity, EqualizedOdds, TruePositiveRateParity, ErrorRateParity, FalsePositiveRateParity]:
        kw = dict(difference_bound=float(rng.choice([0.02,0.1,0.3]))) if rng.rand()<.5 else dict(ratio_bound=float(rng.choice([0.7,0.9])), ratio_bound_slack=float(rng.choice([0.0,0.05])))
        eps=float(rng.choice([0.01,0.05,0.2])); lp=bool(rng.rand()<.5); mi=int(rng.choice([3,8,20,50])); nu=float(rng.choice([1e-3,1e-2,0.05]))
        try:
            T=table(cls,kw,X,y,g)
        except Exception as ex:
            continue
        if len(T[0][2])==0: continue
        eg=ExponentiatedGradient(Exact(), cls(**kw), eps=eps, max_iter=mi, nu=nu, run_linprog_step=lp)
        eg.fit(X,y,sensitive_features=g); tot+=1
        B=1/eps
        # identify predictors in table
        F=sorted(set(X[:,0])); Xq=np.array(F).reshape(-1,1)
        idx={bits:i for i,(bits,_,_,_) in enumerate(T)}
        Qerr=0; Qg=0
        w=eg.weights_
        assert abs(w.sum()-1)<1e-9 and (w>=-1e-12).all(), w
        for hid,p in eg.predictors_.items():
            bits=tuple(int(v) for v in p.predict(Xq)); _,e,gm,bd=T[idx[bits]]
            Qerr+=w[hid]*e; Qg=Qg+w[hid]*gm
        bd=T[0][3]
        # candidates lambda
        t=eg.best_iter_
        cands=[eg.lambda_vecs_EG_.iloc[:,:t+1].mean(axis=1)]
        if t in eg.lambda_vecs_LP_.columns: cands.append(eg.lambda_vecs_LP_[t])
        gaps=[]
        for lam in cands:
            lamp=eg.constraints.project_lambda(lam)
            L=Qerr+(lamp*(Qg-bd)).sum()
            Llow=min(e+(lamp*(gm-bd)).sum() for _,e,gm,_ in T)
            Lhigh=Qerr+B*max(0,(Qg-bd).max())
            gaps.append(max(L-Llow,Lhigh-L))
        ok = min(gaps) <= eg.best_gap_+1e-7
        viol=(Qg-bd).max()
        ok2 = viol <= (1+2*eg.best_gap_)/B+1e-9
        # OPT
        A=np.array([ (gm-bd).values for _,e,gm,_ in T]).T; c=np.array([e for _,e,_,_ in T])
        r=linprog(c,A_ub=A,b_ub=np.zeros(A.shape[0]),A_eq=np.ones((1,len(T))),b_eq=[1],bounds=(0,None),method='highs')
        ok3=True
        if r.status==0: ok3 = Qerr <= r.fun+2*eg.best_gap_+1e-7
        ok4 = (eg.last_iter_==mi-1) or (eg.best_gap_<nu)
        worst=max(worst,min(gaps)-eg.best_gap_)
        if not(ok and ok2 and ok3 and ok4):
            bad+=1
            if bad<8: print("BAD",cls.__name__,kw,eps,lp,mi,nu,"gaps",gaps,"best",eg.best_gap_,"viol",viol,ok,ok2,ok3,ok4, "last",eg.last_iter_)
print(tot,bad,worst)
