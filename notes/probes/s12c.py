import numpy as np, pandas as pd, warnings, logging
warnings.filterwarnings("ignore"); logging.disable(logging.CRITICAL)
from sklearn.base import BaseEstimator, ClassifierMixin
from fairlearn.reductions import *
from fairlearn.postprocessing import ThresholdOptimizer
class Exact(BaseEstimator, ClassifierMixin):
    def fit(self, X, y, sample_weight=None):
        X=np.asarray(X)[:,0]; y=np.asarray(y).ravel(); w=np.ones(len(y)) if sample_weight is None else np.asarray(sample_weight,float).ravel()
        self.table_={v: int((w[(X==v)&(y==1)]).sum() > (w[(X==v)&(y==0)]).sum()) for v in np.unique(X)}
        self.classes_=np.array([0,1]); return self
    def predict(self, X): return np.array([self.table_.get(v,0) for v in np.asarray(X)[:,0]])
class Passthrough(BaseEstimator, ClassifierMixin):
    def fit(self, X, y, **kw): self.fitted_=True; return self
    def predict(self, X): return np.asarray(X)[:,0]
n=10; rng=np.random.RandomState(3)
X=rng.randint(0,3,n).reshape(-1,1).astype(float); y=np.array([0,1,1,0,1,0,0,1,1,0]); g=np.array(['a','b','a','b','b','a','a','b','a','b']); c=np.array(['u','u','v','v','u','v','u','v','u','v'])
perm=rng.permutation(n)
def kinds(a,name):
    return {'list':list(a),'nd':np.asarray(a),'nd2':np.asarray(a).reshape(-1,1),'ser':pd.Series(a),'ser_shuf':pd.Series(a,index=perm),'ser_off':pd.Series(a,index=np.arange(n)+100),
            'ser_dup':pd.Series(a,index=[0]*n),'ser_str':pd.Series(a,index=list('jihgfedcba')),'df':pd.DataFrame({name:a}),'df_shuf':pd.DataFrame({name:a},index=perm)}
def run_eg(y_,g_,c_=None):
    kw=dict(sensitive_features=g_)
    if c_ is not None: kw['control_features']=c_
    eg=ExponentiatedGradient(Exact(),DemographicParity(difference_bound=0.05),eps=0.05,max_iter=8,nu=1e-6); eg.fit(X,y_,**kw)
    return np.round(eg._pmf_predict(X)[:,1],12).tolist()
def run_gs(y_,g_,c_=None):
    kw=dict(sensitive_features=g_)
    if c_ is not None: kw['control_features']=c_
    gs=GridSearch(Exact(),EqualizedOdds(),grid_size=7); gs.fit(X,y_,**kw)
    return (gs.best_idx_, np.round(gs.lambda_vecs_.values,12).tolist(), gs.predict(X).tolist())
def run_to(y_,g_,c_=None):
    res=[]
    for cons in ['demographic_parity','equalized_odds']:
        to=ThresholdOptimizer(estimator=Passthrough(),constraints=cons,prefit=True,predict_method='predict',grid_size=5); to.fit(X,y_,sensitive_features=g_)
        res.append(np.round(to._pmf_predict(X,sensitive_features=g_)[:,1],12).tolist())
    return res
for nm,fn in [('EG',run_eg),('GS',run_gs),('TO',run_to)]:
    ref=fn(y,g)
    for k,v in kinds(y,'lab').items():
        try:
            r=fn(v,g)
            if r!=ref: print(nm,"y",k,"DIFF")
        except Exception as e: print(nm,"y",k,"EXC",type(e).__name__,str(e)[:90])
    for k,v in kinds(g,'sf').items():
        try:
            r=fn(y,v)
            if r!=ref: print(nm,"sf",k,"DIFF")
        except Exception as e: print(nm,"sf",k,"EXC",type(e).__name__,str(e)[:90])
    if nm!='TO':
        refc=fn(y,g,c)
        for k,v in kinds(c,'cf').items():
            try:
                r=fn(y,g,v)
                if r!=refc: print(nm,"cf",k,"DIFF")
            except Exception as e: print(nm,"cf",k,"EXC",type(e).__name__,str(e)[:90])
print("done")
