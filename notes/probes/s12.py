import numpy as np, pandas as pd, warnings, logging
warnings.filterwarnings("ignore"); logging.disable(logging.CRITICAL)
from fairlearn.metrics import MetricFrame, selection_rate, demographic_parity_difference, equalized_odds_difference
from fairlearn.reductions import DemographicParity, EqualizedOdds
n=8
yt=np.array([0,1,1,0,1,0,1,1]); yp=np.array([1,1,0,0,1,1,0,1]); g=np.array(['a','b','a','b','b','a','a','b']); w=np.array([1,2,3,1,2,1,1,2.])
perm=np.array([3,1,7,0,5,2,6,4])
def kinds(a, name):
    return {
     'list': list(a), 'nd': np.asarray(a), 'nd2': np.asarray(a).reshape(-1,1),
     'ser': pd.Series(a), 'ser_shuf': pd.Series(a, index=perm), 'ser_off': pd.Series(a, index=np.arange(n)+100), 'ser_dup': pd.Series(a, index=[0]*n), 'ser_str': pd.Series(a, index=list('hgfedcba')),
     'df': pd.DataFrame({name: a}), 'df_shuf': pd.DataFrame({name: a}, index=perm)}
base=MetricFrame(metrics=selection_rate,y_true=yt,y_pred=yp,sensitive_features=g,sample_params={'sample_weight':w})
ref=(base.by_group.to_dict(), base.overall)
for arg in ['y_true','y_pred','sf','w']:
    for k in kinds(yt,'x'):
        a=dict(y_true=yt,y_pred=yp,sf=g,w=w)
        a[arg]=kinds(a[arg], 'col')[k]
        try:
            mf=MetricFrame(metrics=selection_rate,y_true=a['y_true'],y_pred=a['y_pred'],sensitive_features=a['sf'],sample_params={'sample_weight':a['w']})
            got=(mf.by_group.to_dict(), mf.overall)
            ok = all(abs(got[0][key]-ref[0][key])<1e-12 for key in ref[0]) and abs(got[1]-ref[1])<1e-12 if set(got[0])==set(ref[0]) else False
            if not ok: print(arg,k,"DIFF",got)
        except Exception as e:
            print(arg,k,"EXC",type(e).__name__,str(e)[:80])
# dict features
mf=MetricFrame(metrics=selection_rate,y_true=yt,y_pred=yp,sensitive_features={'sf':pd.Series(g,index=perm)}); print(mf.by_group.to_dict())
print(base.by_group.to_dict())
# moment
for k,v in kinds(g,'sf').items():
    for ky,vy in kinds(yt,'y').items():
        try:
            m=DemographicParity(); m.load_data(np.zeros((n,1)), vy, sensitive_features=v)
            gm=m.gamma(lambda X: yp)
        except Exception as e:
            print("moment",k,ky,"EXC",type(e).__name__,str(e)[:80]); continue
        if k=='list' and ky=='list': ref2=gm
        elif abs(gm.values-ref2.values).max()>1e-12: print("moment",k,ky,"DIFF")
