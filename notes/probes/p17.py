import numpy as np, pandas as pd, warnings, itertools
warnings.filterwarnings("ignore")
from fractions import Fraction as F
import fairlearn.metrics as fm
bad=0; tot=0
def ref(yt,yp,w,pos):
    tp=sum(wi for a,b,wi in zip(yt,yp,w) if a==pos and b==pos); fn=sum(wi for a,b,wi in zip(yt,yp,w) if a==pos and b!=pos)
    fp=sum(wi for a,b,wi in zip(yt,yp,w) if a!=pos and b==pos); tn=sum(wi for a,b,wi in zip(yt,yp,w) if a!=pos and b!=pos)
    P=tp+fn; N=fp+tn
    return dict(tpr=F(tp,P) if P else F(0), fnr=F(fn,P) if P else F(0), fpr=F(fp,N) if N else F(0), tnr=F(tn,N) if N else F(0), sel=F(tp+fp,P+N))
encs=[((0,1),None,1),((-1,1),None,1),(('x','y'),'y','y'),(('x','y'),'x','x'),((2,5),5,5),((2,5),2,2),((0,1),0,0),((0,1),1,1)]
for n in range(1,5):
    for bits in itertools.product([0,1],repeat=2*n):
        for ws in ([None]+[tuple(w) for w in itertools.product([1,2],repeat=n)] if n<=3 else [None]):
            for (vals,pl,pos) in encs:
                yt=[vals[b] for b in bits[:n]]; yp=[vals[b] for b in bits[n:]]
                w=[1]*n if ws is None else list(ws)
                r=ref(yt,yp,w,pos)
                kw={} if ws is None else dict(sample_weight=list(ws))
                for name,fn in [('tpr',fm.true_positive_rate),('fnr',fm.false_negative_rate),('fpr',fm.false_positive_rate),('tnr',fm.true_negative_rate)]:
                    try:
                        got=fn(yt,yp,pos_label=pl,**kw)
                    except Exception as e:
                        # pos_label given but absent from the data is rejected when two distinct values present w/o pos
                        uniq=set(yt)|set(yp)
                        if pl is not None and len(uniq)==2 and pl not in uniq: continue
                        bad+=1; print("EXC",name,yt,yp,pl,ws,type(e).__name__,e); continue
                    tot+=1
                    if np.ndim(got)!=0 or abs(float(got)-float(r[name]))>1e-12:
                        bad+=1
                        if bad<10: print("BAD",name,yt,yp,pl,ws,got,r[name])
                if pl is not None or vals in [(0,1),(-1,1)]:
                    got=fm.selection_rate(yt,yp,pos_label=pos,**kw); tot+=1
                    if np.ndim(got)!=0 or abs(float(got)-float(r['sel']))>1e-12:
                        bad+=1
                        if bad<10: print("BAD sel",yt,yp,pos,ws,repr(got),r['sel'])
print(tot,bad)
