import numpy as np, pandas as pd, warnings, logging
warnings.filterwarnings("ignore"); logging.disable(logging.CRITICAL)
from sklearn.exceptions import NotFittedError
from sklearn.tree import DecisionTreeClassifier
from sklearn.linear_model import LogisticRegression
from fairlearn.metrics import *
from fairlearn.reductions import *
from fairlearn.postprocessing import ThresholdOptimizer
from fairlearn.preprocessing import CorrelationRemover
n=10; rng=np.random.RandomState(0)
X=rng.rand(n,2); y=np.array([0,1]*5); g=np.array(['a','b','b','a','a','b','a','b','b','a']); yp=rng.randint(0,2,n); w=rng.rand(n)+.1
def t(name, f):
    try: f(); print("ACCEPTED", name)
    except NotFittedError as e: print("  nf      ", name)
    except Exception as e: print("  rejected", name, type(e).__name__)
for kind,conv in [('list',list),('nd',np.asarray),('ser',pd.Series)]:
    t(f"MF y_true short {kind}", lambda: MetricFrame(metrics=selection_rate,y_true=conv(y[:-1]),y_pred=yp,sensitive_features=g))
    t(f"MF y_pred long {kind}", lambda: MetricFrame(metrics=selection_rate,y_true=y,y_pred=conv(np.r_[yp,1]),sensitive_features=g))
    t(f"MF sf short {kind}", lambda: MetricFrame(metrics=selection_rate,y_true=y,y_pred=yp,sensitive_features=conv(g[:-1])))
    t(f"MF cf short {kind}", lambda: MetricFrame(metrics=selection_rate,y_true=y,y_pred=yp,sensitive_features=g,control_features=conv(g[:-1])))
    t(f"MF sp short {kind}", lambda: MetricFrame(metrics=selection_rate,y_true=y,y_pred=yp,sensitive_features=g,sample_params={'sample_weight':conv(w[:-1])}))
    t(f"MF sp long {kind}", lambda: MetricFrame(metrics=selection_rate,y_true=y,y_pred=yp,sensitive_features=g,sample_params={'sample_weight':conv(np.r_[w,1])}))
    t(f"dpd sw short {kind}", lambda: demographic_parity_difference(y,yp,sensitive_features=g,sample_weight=conv(w[:-1])))
    t(f"tpr sw short {kind}", lambda: true_positive_rate(y,yp,sample_weight=conv(w[:-1])))
    t(f"selrate sw short {kind}", lambda: selection_rate(y,yp,sample_weight=conv(w[:-1])))
    t(f"meanpred sw short {kind}", lambda: mean_prediction(y,yp,sample_weight=conv(w[:-1])))
    t(f"DP load y short {kind}", lambda: DemographicParity().load_data(X,conv(y[:-1]),sensitive_features=g))
    t(f"DP load sf short {kind}", lambda: DemographicParity().load_data(X,y,sensitive_features=conv(g[:-1])))
    t(f"DP load cf short {kind}", lambda: DemographicParity().load_data(X,y,sensitive_features=g,control_features=conv(g[:-1])))
    y2=y.copy(); y2[3]=2
    t(f"DP load y=2 {kind}", lambda: DemographicParity().load_data(X,conv(y2),sensitive_features=g))
    t(f"ErrorRate load y=2 {kind}", lambda: ErrorRate().load_data(X,conv(y2),sensitive_features=g))
    t(f"EG y=2 {kind}", lambda: ExponentiatedGradient(DecisionTreeClassifier(),DemographicParity()).fit(X,conv(y2),sensitive_features=g))
    t(f"GS y=2 {kind}", lambda: GridSearch(DecisionTreeClassifier(),DemographicParity()).fit(X,conv(y2),sensitive_features=g))
    t(f"TO y=2 {kind}", lambda: ThresholdOptimizer(estimator=LogisticRegression()).fit(X,conv(y2),sensitive_features=g))
    ym=np.where(y==0,-1,1)
    t(f"TO y=-1/1 {kind}", lambda: ThresholdOptimizer(estimator=LogisticRegression()).fit(X,conv(ym),sensitive_features=g))
    t(f"TO sf short {kind}", lambda: ThresholdOptimizer(estimator=LogisticRegression()).fit(X,y,sensitive_features=conv(g[:-1])))
    yd=y.copy(); yd[g=='a']=1
    t(f"TO degenerate {kind}", lambda: ThresholdOptimizer(estimator=LogisticRegression()).fit(X,conv(yd),sensitive_features=g))
    t(f"TO predict sf short {kind}", lambda: ThresholdOptimizer(estimator=LogisticRegression()).fit(X,y,sensitive_features=g).predict(X,sensitive_features=conv(g[:-1])))
t("EG no sf", lambda: ExponentiatedGradient(DecisionTreeClassifier(),DemographicParity()).fit(X,y))
t("GS no sf", lambda: GridSearch(DecisionTreeClassifier(),DemographicParity()).fit(X,y))
t("TO cf", lambda: ThresholdOptimizer(estimator=LogisticRegression()).fit(X,y,sensitive_features=g,control_features=g))
t("TO eo+selrate", lambda: ThresholdOptimizer(estimator=LogisticRegression(),constraints='equalized_odds',objective='selection_rate').fit(X,y,sensitive_features=g))
t("TO bad constraint", lambda: ThresholdOptimizer(estimator=LogisticRegression(),constraints='foo').fit(X,y,sensitive_features=g))
t("TO dp+fpr objective", lambda: ThresholdOptimizer(estimator=LogisticRegression(),objective='false_positive_rate').fit(X,y,sensitive_features=g))
t("DP both bounds", lambda: DemographicParity(difference_bound=0.1,ratio_bound=0.8))
t("DP ratio 0", lambda: DemographicParity(ratio_bound=0.0))
t("DP ratio 1.2", lambda: DemographicParity(ratio_bound=1.2))
t("DP ratio -1", lambda: DemographicParity(ratio_bound=-1))
t("ErrorRate costs neg", lambda: ErrorRate(costs={'fp':-1,'fn':1}))
t("ErrorRate costs zero", lambda: ErrorRate(costs={'fp':0,'fn':0}))
t("ErrorRate costs missing", lambda: ErrorRate(costs={'fp':1}))
t("GS cw 1.5", lambda: GridSearch(DecisionTreeClassifier(),DemographicParity(),constraint_weight=1.5))
t("GS cw -0.1", lambda: GridSearch(DecisionTreeClassifier(),DemographicParity(),constraint_weight=-0.1))
t("GS bad rule", lambda: GridSearch(DecisionTreeClassifier(),DemographicParity(),selection_rule='x'))
t("MF dup names", lambda: MetricFrame(metrics=selection_rate,y_true=y,y_pred=yp,sensitive_features={'a':g},control_features={'a':g}))
t("MF dup names sf df", lambda: MetricFrame(metrics=selection_rate,y_true=y,y_pred=yp,sensitive_features=pd.DataFrame(np.c_[g,g],columns=['a','a'])))
t("MF int names", lambda: MetricFrame(metrics=selection_rate,y_true=y,y_pred=yp,sensitive_features=pd.DataFrame({0:g})))
t("MF series int name", lambda: MetricFrame(metrics=selection_rate,y_true=y,y_pred=yp,sensitive_features=pd.Series(g,name=3)))
t("MF dict int key", lambda: MetricFrame(metrics=selection_rate,y_true=y,y_pred=yp,sensitive_features={1:g}))
t("EG predict unfitted", lambda: ExponentiatedGradient(DecisionTreeClassifier(),DemographicParity()).predict(X))
t("GS predict unfitted", lambda: GridSearch(DecisionTreeClassifier(),DemographicParity()).predict(X))
t("TO predict unfitted", lambda: ThresholdOptimizer(estimator=LogisticRegression()).predict(X,sensitive_features=g))
t("CR transform unfitted", lambda: CorrelationRemover(sensitive_feature_ids=[0]).transform(X))
t("CR missing col", lambda: CorrelationRemover(sensitive_feature_ids=[5]).fit(X))
from fairlearn.adversarial import AdversarialFairnessClassifier
t("ADV predict unfitted", lambda: AdversarialFairnessClassifier(backend='torch').predict(X))
