import numpy as np, pandas as pd, warnings
warnings.filterwarnings("ignore")
from fairlearn.preprocessing import CorrelationRemover
from fairlearn.metrics import MetricFrame, selection_rate, count, mean_prediction
rng=np.random.RandomState(0)
# C15 with 1 sensitive col (avoid D3) : check formula, order, alpha, transform new data
bad=0
for trial in range(200):
    n=rng.randint(2,12); m=rng.randint(2,6); X=rng.randn(n,m).round(2)
    if rng.rand()<.2: X[:,0]=1.0  # constant sensitive
    sid=int(rng.randint(0,m)); alpha=float(rng.choice([0,0.3,1]))
    for asdf in [False,True]:
        if asdf:
            cols=[f"c{i}" for i in range(m)]; Xi=pd.DataFrame(X,columns=cols); ids=[cols[sid]]
        else: Xi=X; ids=[sid]
        cr=CorrelationRemover(sensitive_feature_ids=ids,alpha=alpha); out=cr.fit_transform(Xi)
        S=X[:,[sid]]; Z=np.delete(X,sid,axis=1); Sc=S-S.mean(0)
        beta=np.linalg.lstsq(Sc,Z,rcond=None)[0]; refo=alpha*(Z-Sc@beta)+(1-alpha)*Z
        if out.shape!=refo.shape or np.abs(out-refo).max()>1e-9: bad+=1; print("BAD fit_transform",n,m,sid,alpha,asdf)
        Xn=rng.randn(3,m); Xni=pd.DataFrame(Xn,columns=cols) if asdf else Xn
        o2=cr.transform(Xni); Sn=Xn[:,[sid]]-S.mean(0); Zn=np.delete(Xn,sid,axis=1); r2=alpha*(Zn-Sn@beta)+(1-alpha)*Zn
        if np.abs(o2-r2).max()>1e-9: bad+=1; print("BAD transform")
print("c15",bad)
# C18
bad=0
for trial in range(40):
    n=rng.randint(4,14); yt=rng.randint(0,2,n); yp=rng.randint(0,2,n); g=rng.choice(['a','b','c'],n); c=rng.choice(['u','v'],n)
    q=[0.05,0.5,0.95]; seed=int(rng.randint(1000))
    for metrics in [selection_rate,{'s':selection_rate,'c':count,'m':mean_prediction}]:
        for cf in [None,c,{'c1':c,'c2':np.roll(c,1)}]:
            kw=dict(metrics=metrics,y_true=yt,y_pred=yp,sensitive_features=g,control_features=cf,n_boot=9,ci_quantiles=q,random_state=seed)
            try:
                a=MetricFrame(**kw); b=MetricFrame(**kw)
            except Exception as e:
                bad+=1; print("EXC",type(e).__name__,str(e)[:100],dict(cf=type(cf).__name__,dict=isinstance(metrics,dict))); continue
            pairs=[('overall',a.overall,a.overall_ci,b.overall_ci),('by_group',a.by_group,a.by_group_ci,b.by_group_ci),
                   ('gmin',a.group_min(),a.group_min_ci(),b.group_min_ci()),('gmax',a.group_max(),a.group_max_ci(),b.group_max_ci()),
                   ('diff',a.difference(),a.difference_ci(),b.difference_ci()),('diffto',a.difference(method='to_overall'),a.difference_ci(method='to_overall'),b.difference_ci(method='to_overall')),
                   ('ratio',a.ratio(),a.ratio_ci(),b.ratio_ci()),('ratioto',a.ratio(method='to_overall'),a.ratio_ci(method='to_overall'),b.ratio_ci(method='to_overall'))]
            for name,pt,ci,ci2 in pairs:
                if len(ci)!=3: bad+=1; print("LEN",name)
                for k in range(3):
                    x,y2=ci[k],ci2[k]
                    if type(x)!=type(pt) and not (np.isscalar(pt) and np.isscalar(x)): bad+=1; print("TYPE",name,type(pt),type(x),dict(cf=type(cf).__name__,dict=isinstance(metrics,dict)))
                    xa=np.asarray(x,float); ya=np.asarray(y2,float)
                    if not np.array_equal(xa,ya,equal_nan=True): bad+=1; print("NONDET",name)
                    if hasattr(pt,'index') and hasattr(x,'index'):
                        if not set(x.index)<=set(pt.index): bad+=1; print("IDX",name)
                        if hasattr(pt,'columns') and list(pt.columns)!=list(x.columns): bad+=1; print("COLS",name,list(pt.columns),list(x.columns))
                for k in range(2):
                    lo=np.asarray(ci[k],float); hi=np.asarray(ci[k+1],float)
                    if hasattr(ci[k],'reindex') and hasattr(ci[k+1],'reindex_like'): hi=np.asarray(ci[k+1].reindex_like(ci[k]),float)
                    if np.any(lo>hi+1e-12): bad+=1; print("ORDER",name)
print("c18",bad)
