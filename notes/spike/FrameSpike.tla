---- MODULE FrameSpike ----
EXTENDS Integers, Sequences, FiniteSets, TLC, Json

CONSTANTS N, G, W, Emit

Groups == 1..G
RowT == [g : Groups, y : 0..1, p : 0..1, w : 1..W]

VARIABLE bag   \* function RowT -> count

Size(b) == LET RECURSIVE S(_)
               S(R) == IF R = {} THEN 0 ELSE LET r == CHOOSE x \in R : TRUE IN b[r] + S(R \ {r})
           IN S(RowT)

Init == bag = [r \in RowT |-> 0]
AddRow(r) == /\ Size(bag) < N
             /\ bag' = [bag EXCEPT ![r] = @ + 1]
Next == \E r \in RowT : AddRow(r)

\* weighted sums
SumOver(S, f(_)) == LET RECURSIVE T(_)
                        T(R) == IF R = {} THEN 0 ELSE LET r == CHOOSE x \in R : TRUE IN f(r) + T(R \ {r})
                    IN T(S)
Wt(S)   == SumOver(S, LAMBDA r : bag[r] * r.w)
SelNum(S) == SumOver(S, LAMBDA r : bag[r] * r.w * r.p)
Rows(g) == {r \in RowT : r.g = g}
Present(g) == \E r \in Rows(g) : bag[r] > 0
Sel(g)  == <<SelNum(Rows(g)), Wt(Rows(g))>>
Overall == <<SelNum(RowT), Wt(RowT)>>
Lt(a, b) == a[1] * b[2] < b[1] * a[2]
PG == {g \in Groups : Present(g)}
MaxSel == CHOOSE a \in {Sel(g) : g \in PG} : \A b \in {Sel(g) : g \in PG} : ~Lt(a, b)
MinSel == CHOOSE a \in {Sel(g) : g \in PG} : \A b \in {Sel(g) : g \in PG} : ~Lt(b, a)
Diff == <<MaxSel[1]*MinSel[2] - MinSel[1]*MaxSel[2], MaxSel[2]*MinSel[2]>>

Obs == [bag |-> [r \in {x \in RowT : bag[x] > 0} |-> bag[r]], sel |-> [g \in PG |-> Sel(g)], overall |-> Overall, diff |-> Diff]
EmitOK == (Emit /\ Size(bag) > 0) => PrintT(ToJson(Obs))
DiffNonNeg == Size(bag) > 0 => Diff[1] >= 0
====
