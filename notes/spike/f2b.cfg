CONSTANTS N = 5 G = 3 W = 2 Emit = FALSE
INIT Init
NEXT Next
INVARIANT EmitInv
INVARIANT DiffNonNeg
CHECK_DEADLOCK FALSE
