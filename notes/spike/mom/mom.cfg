CONSTANTS N = 4 G = 2 S = 2 F = 2 Emit = FALSE
Kinds = {"DP","ERP","TPR","FPR","EO"}
Ratios <- RatiosDef
INIT Init
NEXT Next
INVARIANT Laws
INVARIANT EmitInv
CHECK_DEADLOCK FALSE
