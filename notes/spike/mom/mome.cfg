CONSTANTS N = 3 G = 2 S = 2 F = 2 Emit = TRUE
Kinds = {"DP","ERP","TPR","FPR","EO"}
Ratios <- RatiosDef
INIT Init
NEXT Next
INVARIANT EmitInv
CHECK_DEADLOCK FALSE
