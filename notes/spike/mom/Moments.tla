---- MODULE Moments ----
EXTENDS Integers, Sequences, FiniteSets, TLC, Json, FiniteSetsExt, SequencesExt

CONSTANTS N, G, S, F, Emit, Kinds, Ratios
\* row type: g in 1..G, y in 0..1, c in 1..S (S=1: no control feature), f in 0..F-1 (feature value)
NT == G * 2 * S * F
Gof(t) == (t \div (2 * S * F)) + 1
Yof(t) == (t \div (S * F)) % 2
Cof(t) == ((t \div F) % S) + 1
Fof(t) == t % F

VARIABLE rows
Init == rows = <<>>
AddRow(t) == /\ Len(rows) < N
             /\ IF rows = <<>> THEN TRUE ELSE rows[Len(rows)] <= t
             /\ rows' = Append(rows, t)
Next == \E t \in 0..(NT-1) : AddRow(t)

RECURSIVE GCD(_,_)
GCD(a,b) == IF b = 0 THEN a ELSE GCD(b, a % b)
Abs(x) == IF x < 0 THEN -x ELSE x
Norm(r) == LET s == IF r[2] < 0 THEN <<-r[1], -r[2]>> ELSE r
               g == GCD(Abs(s[1]), s[2]) IN IF g <= 1 THEN s ELSE <<s[1] \div g, s[2] \div g>>
Add(a,b) == Norm(<<a[1]*b[2]+b[1]*a[2], a[2]*b[2]>>)
Sub(a,b) == Norm(<<a[1]*b[2]-b[1]*a[2], a[2]*b[2]>>)
Mul(a,b) == Norm(<<a[1]*b[1], a[2]*b[2]>>)
Eq(a,b) == a[1]*b[2] = b[1]*a[2]
Zero == <<0,1>>

Rows == 1..Len(rows)
n == Len(rows)
Sum(T, f(_)) == FoldSet(LAMBDA i, acc : acc + f(i), 0, T)

\* ---- events: <<c, lab>> with lab in {0,1,2}; 2 = "all"
LabClasses(kind) == CASE kind = "DP" -> {2} [] kind = "ERP" -> {2} [] kind = "TPR" -> {1} [] kind = "FPR" -> {0} [] kind = "EO" -> {0,1}
InEvent(i, e) == Cof(rows[i]) = e[1] /\ (e[2] = 2 \/ Yof(rows[i]) = e[2])
EvRows(e) == {i \in Rows : InEvent(i, e)}
EGRows(e, g) == {i \in EvRows(e) : Gof(rows[i]) = g}
Events(kind) == {e \in (1..S) \X LabClasses(kind) : EvRows(e) # {}}
Pairs(kind) == {p \in Events(kind) \X (1..G) : EGRows(p[1], p[2]) # {}}
Index(kind) == {"+", "-"} \X Pairs(kind)

\* utility of a 0/1 predictor h (function Rows -> {0,1}); for ERP utility is the error indicator
Util(kind, h, i) == IF kind = "ERP" THEN (IF h[i] = Yof(rows[i]) THEN 0 ELSE 1) ELSE h[i]
MeanU(kind, h, T) == <<Sum(T, LAMBDA i : Util(kind, h, i)), Cardinality(T)>>
\* gamma(+,e,g) = r*mean_{e,g}(u) - mean_e(u) ; gamma(-,e,g) = r*mean_e(u) - mean_{e,g}(u)
Gamma(kind, r, h, k) ==
   LET e == k[2][1] g == k[2][2]
       me == MeanU(kind, h, EvRows(e))  meg == MeanU(kind, h, EGRows(e, g))
   IN IF k[1] = "+" THEN Sub(Mul(r, meg), me) ELSE Sub(Mul(r, me), meg)
Err(h) == <<Sum(Rows, LAMBDA i : IF h[i] = Yof(rows[i]) THEN 0 ELSE 1), n>>

\* signed weight of row i for unit lambda at k:  w_i = udiff_i * U[i,k]
\*   U[i,(+,e,g)] = 1[e]/P(e) - r*1[e,g]/P(e,g) ; P(e)=|e|/n
UEntry(kind, r, i, k) ==
   LET e == k[2][1] g == k[2][2]
       ie == IF InEvent(i, e) THEN <<n, Cardinality(EvRows(e))>> ELSE Zero
       ieg == IF InEvent(i, e) /\ Gof(rows[i]) = g THEN <<n, Cardinality(EGRows(e, g))>> ELSE Zero
   IN IF k[1] = "+" THEN Sub(ie, Mul(r, ieg)) ELSE Sub(ieg, Mul(r, ie))
UDiff(kind, i) == IF kind = "ERP" THEN (IF Yof(rows[i]) = 1 THEN -1 ELSE 1) ELSE 1
SW(kind, r, i, k) == Mul(<<UDiff(kind, i), 1>>, UEntry(kind, r, i, k))

\* ---- laws checked on the spec
Hs == [Rows -> {0,1}]
ZeroH == [i \in Rows |-> 0]
UnitH(j) == [i \in Rows |-> IF i = j THEN 1 ELSE 0]
\* reduction identity for unit lambda: gamma_k(h) - gamma_k(h0) = -(1/n) sum_i w_i (h_i - h0_i)
IdentityOK(kind, r) == \A k \in Index(kind) : \A h \in Hs :
      LET lhs == Sub(Gamma(kind, r, h, k), Gamma(kind, r, ZeroH, k))
          RECURSIVE Acc(_)
          Acc(i) == IF i = 0 THEN Zero ELSE Add(Acc(i-1), Mul(SW(kind, r, i, k), <<h[i], 1>>))
          rhs == Mul(<<-1, n>>, Acc(n))
      IN Eq(lhs, rhs)
PairedSigns(kind) == \A p \in Pairs(kind) : <<"+", p>> \in Index(kind) /\ <<"-", p>> \in Index(kind)
RatioOne(kind) == \A k \in Index(kind) : \A h \in Hs : k[1] = "+" =>
      Eq(Gamma(kind, <<1,1>>, h, k), Sub(MeanU(kind, h, EGRows(k[2][1], k[2][2])), MeanU(kind, h, EvRows(k[2][1]))))
Laws == rows # <<>> => \A kind \in Kinds : PairedSigns(kind) /\ RatioOne(kind) /\ \A r \in Ratios : IdentityOK(kind, r)

\* ---- emission: payoff table over hypothesis class  hyp : feature value -> {0,1}
Hyp == [0..(F-1) -> {0,1}]
HofHyp(hy) == [i \in Rows |-> hy[Fof(rows[i])]]
IdxSeq(kind) == SetToSeq(Index(kind))
Obs == [rows |-> [i \in Rows |-> <<Gof(rows[i]), Yof(rows[i]), Cof(rows[i]), Fof(rows[i])>>],
        mom |-> [kind \in Kinds |-> [index |-> IdxSeq(kind),
                 table |-> [r \in Ratios |-> [hy \in Hyp |-> [err |-> Err(HofHyp(hy)),
                              gamma |-> [j \in 1..Len(IdxSeq(kind)) |-> Gamma(kind, r, HofHyp(hy), IdxSeq(kind)[j])]]]]]]]
EmitInv == (Emit /\ rows # <<>>) => PrintT(ToJson(Obs))
RatiosDef == {<<1,1>>, <<4,5>>}
====
