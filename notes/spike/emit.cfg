CONSTANTS N = 3 G = 2 W = 2 Emit = TRUE
INIT Init
NEXT Next
CONSTRAINT EmitOK
INVARIANT DiffNonNeg
CHECK_DEADLOCK FALSE
