---- MODULE Frame2 ----
EXTENDS Integers, Sequences, FiniteSets, TLC, Json, SequencesExt, Functions, FiniteSetsExt

CONSTANTS N, G, W, Emit

\* row type id 0..(G*2*2*W-1) decoded arithmetically
NT == G * 4 * W
Gof(t) == (t \div (4 * W)) + 1
Yof(t) == (t \div (2 * W)) % 2
Pof(t) == (t \div W) % 2
Wof(t) == (t % W) + 1

VARIABLE rows   \* nondecreasing sequence of row type ids

Init == rows = <<>>
AddRow(t) == /\ Len(rows) < N
             /\ IF rows = <<>> THEN TRUE ELSE rows[Len(rows)] <= t
             /\ rows' = Append(rows, t)
Next == \E t \in 0..(NT-1) : AddRow(t)

Idx(g) == {i \in 1..Len(rows) : Gof(rows[i]) = g}
All == 1..Len(rows)
Sum(S, f(_)) == FoldSet(LAMBDA i, acc : acc + f(i), 0, S)
Wt(S) == Sum(S, LAMBDA i : Wof(rows[i]))
SelNum(S) == Sum(S, LAMBDA i : Wof(rows[i]) * Pof(rows[i]))
TPn(S) == Sum(S, LAMBDA i : Wof(rows[i]) * Pof(rows[i]) * Yof(rows[i]))
Pn(S) == Sum(S, LAMBDA i : Wof(rows[i]) * Yof(rows[i]))
PG == {g \in 1..G : Idx(g) # {}}
Sel(g) == <<SelNum(Idx(g)), Wt(Idx(g))>>
Tpr(g) == <<TPn(Idx(g)), Pn(Idx(g))>>
Lt(a, b) == a[1] * b[2] < b[1] * a[2]
Vals == {Sel(g) : g \in PG}
MaxSel == CHOOSE a \in Vals : \A b \in Vals : ~Lt(a, b)
MinSel == CHOOSE a \in Vals : \A b \in Vals : ~Lt(b, a)
Diff == <<MaxSel[1]*MinSel[2] - MinSel[1]*MaxSel[2], MaxSel[2]*MinSel[2]>>
Obs == [rows |-> [i \in 1..Len(rows) |-> <<Gof(rows[i]), Yof(rows[i]), Pof(rows[i]), Wof(rows[i])>>],
        sel |-> [g \in 1..G |-> IF g \in PG THEN Sel(g) ELSE <<0,0>>],
        tpr |-> [g \in 1..G |-> IF g \in PG THEN Tpr(g) ELSE <<0,0>>],
        overall |-> <<SelNum(All), Wt(All)>>, diff |-> Diff]
EmitInv == (Emit /\ rows # <<>>) => PrintT(ToJson(Obs))
DiffNonNeg == rows # <<>> => Diff[1] >= 0
====
