CONSTANTS MaxN = 0 MaxBS = 0 MaxEp = 0 MaxIt = 0 MaxStop = 0
SPECIFICATION TSpec
INVARIANT CbNumbers
INVARIANT SliceOK
CHECK_DEADLOCK FALSE
