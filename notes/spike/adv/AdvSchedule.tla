---- MODULE AdvSchedule ----
(* Step schedule of _AdversarialFairness.fit (shuffle = FALSE).            *)
EXTENDS Integers, Sequences, FiniteSets, TLC

CONSTANTS MaxN, MaxBS, MaxEp, MaxIt, MaxStop

Unl == -1
VARIABLES cfg,      \* [n, bs, ep, mi, stop]  chosen in Init
          epoch, batch, nIter, phase, log
vars == <<cfg, epoch, batch, nIter, phase, log>>

CeilDiv(a, b) == (a + b - 1) \div b
BS(c)      == IF c.bs = Unl THEN c.n ELSE c.bs
Batches(c) == CeilDiv(c.n, BS(c))
Epochs(c)  == IF c.ep = Unl THEN CeilDiv(c.mi, Batches(c)) ELSE c.ep
Cfgs == {c \in [n : 1..MaxN, bs : {Unl} \cup 1..MaxBS, ep : {Unl} \cup 1..MaxEp,
                mi : {Unl} \cup 1..MaxIt, stop : 0..MaxStop] : ~(c.ep = Unl /\ c.mi = Unl)}

Init == /\ cfg \in Cfgs
        /\ epoch = 0 /\ batch = 0 /\ nIter = 0 /\ log = <<>>
        /\ phase = IF Epochs(cfg) = 0 THEN "done" ELSE "train"

Lo == batch * BS(cfg)
Hi == IF (batch + 1) * BS(cfg) < cfg.n THEN (batch + 1) * BS(cfg) ELSE cfg.n

TrainStep == /\ phase = "train"
             /\ log' = Append(log, [ev |-> "step", lo |-> Lo, hi |-> Hi])
             /\ nIter' = nIter + 1
             /\ phase' = IF cfg.mi # Unl /\ nIter + 1 >= cfg.mi THEN "done" ELSE "callback"
             /\ UNCHANGED <<cfg, epoch, batch>>

Advance == IF batch + 1 < Batches(cfg) THEN /\ batch' = batch + 1 /\ epoch' = epoch /\ phase' = "train"
           ELSE IF epoch + 1 < Epochs(cfg) THEN /\ batch' = 0 /\ epoch' = epoch + 1 /\ phase' = "train"
           ELSE /\ batch' = batch /\ epoch' = epoch /\ phase' = "done"

Callback == /\ phase = "callback"
            /\ log' = Append(log, [ev |-> "cb", step |-> nIter])
            /\ IF cfg.stop = nIter THEN phase' = "done" /\ UNCHANGED <<batch, epoch>> ELSE Advance
            /\ UNCHANGED <<cfg, nIter>>

Next == TrainStep \/ Callback
Spec == Init /\ [][Next]_vars

Steps == SelectSeq(log, LAMBDA e : e.ev = "step")
Cbs   == SelectSeq(log, LAMBDA e : e.ev = "cb")
Min(a, b) == IF a < b THEN a ELSE b
Planned == LET full == Epochs(cfg) * Batches(cfg) IN IF cfg.mi = Unl THEN full ELSE Min(full, cfg.mi)
Expected == IF cfg.stop > 0 /\ cfg.stop < Planned THEN cfg.stop ELSE Planned

TypeOK == nIter = Len(Steps)
CbNumbers == \A i \in 1..Len(Cbs) : Cbs[i].step = i
SliceOK == \A i \in 1..Len(Steps) :
             LET b == (i - 1) % Batches(cfg) IN
             /\ Steps[i].lo = b * BS(cfg)
             /\ Steps[i].hi = Min((b + 1) * BS(cfg), cfg.n)
             /\ Steps[i].lo < Steps[i].hi
Cover == \A i \in 1..Len(Steps) : (i % Batches(cfg) = 0) => Steps[i].hi = cfg.n
AtDone == phase = "done" =>
            /\ nIter = Expected
            /\ Len(Cbs) = IF cfg.mi # Unl /\ nIter >= cfg.mi THEN nIter - 1 ELSE nIter
====
