CONSTANTS MaxN = 7 MaxBS = 8 MaxEp = 3 MaxIt = 8 MaxStop = 7
SPECIFICATION Spec
INVARIANT TypeOK
INVARIANT CbNumbers
INVARIANT SliceOK
INVARIANT Cover
INVARIANT AtDone
CHECK_DEADLOCK FALSE
