---- MODULE AdvTrace ----
EXTENDS AdvSchedule, Json, IOUtils, TLCExt

Traces == JsonDeserialize(IOEnv.TRACE_FILE)     \* sequence of [cfg |-> ..., events |-> <<...>>]
VARIABLES tid, l
tvars == <<vars, tid, l>>

TInit == /\ tid \in 1..Len(Traces)
         /\ l = 1
         /\ cfg = Traces[tid].cfg
         /\ epoch = 0 /\ batch = 0 /\ nIter = 0 /\ log = <<>>
         /\ phase = IF Epochs(cfg) = 0 THEN "done" ELSE "train"

Ev == Traces[tid].events
IsEvent(name) == l <= Len(Ev) /\ Ev[l].ev = name /\ l' = l + 1 /\ tid' = tid

TStep == /\ IsEvent("step")
         /\ TrainStep
         /\ Ev[l].lo = Lo /\ Ev[l].hi = Hi /\ Ev[l].n_iter = nIter + 1
TCb   == /\ IsEvent("cb")
         /\ Callback
         /\ Ev[l].step = nIter /\ Ev[l].stop = (cfg.stop = nIter)
TEnd  == /\ IsEvent("end")
         /\ phase = "done"
         /\ Ev[l].n_iter = nIter
         /\ PrintT(<<"ACCEPT", tid>>)
         /\ UNCHANGED vars
TNext == TStep \/ TCb \/ TEnd
TSpec == TInit /\ [][TNext]_tvars
Progress == TLCSet(tid, IF TLCGet(tid) < l THEN l ELSE TLCGet(tid))
====
