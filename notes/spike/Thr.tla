---- MODULE Thr ----
EXTENDS Integers, Sequences, FiniteSets, TLC, Json, FiniteSetsExt

CONSTANTS N, G, L, GS, Emit
\* row type: g in 1..G, y in 0..1, s in 0..L-1
NT == G * 2 * L
Gof(t) == (t \div (2 * L)) + 1
Yof(t) == (t \div L) % 2
Sof(t) == t % L

VARIABLE rows
Init == rows = <<>>
AddRow(t) == /\ Len(rows) < N
             /\ IF rows = <<>> THEN TRUE ELSE rows[Len(rows)] <= t
             /\ rows' = Append(rows, t)
Next == \E t \in 0..(NT-1) : AddRow(t)

Idx(g) == {i \in 1..Len(rows) : Gof(rows[i]) = g}
Cnt(S) == Cardinality(S)
Valid == \A g \in 1..G : (\E i \in Idx(g) : Yof(rows[i]) = 1) /\ (\E i \in Idx(g) : Yof(rows[i]) = 0)

\* rationals as <<n,d>> d>0
Lt(a,b) == a[1]*b[2] < b[1]*a[2]
Le(a,b) == a[1]*b[2] <= b[1]*a[2]
Eq(a,b) == a[1]*b[2] = b[1]*a[2]
RECURSIVE GCD(_,_)
GCD(a,b) == IF b = 0 THEN a ELSE GCD(b, a % b)
Abs(x) == IF x < 0 THEN -x ELSE x
Norm(r) == LET g == GCD(Abs(r[1]), r[2]) IN IF g <= 1 THEN r ELSE <<r[1] \div g, r[2] \div g>>
Add(a,b) == Norm(<<a[1]*b[2]+b[1]*a[2], a[2]*b[2]>>)
Sub(a,b) == Norm(<<a[1]*b[2]-b[1]*a[2], a[2]*b[2]>>)
Mul(a,b) == Norm(<<a[1]*b[1], a[2]*b[2]>>)
Div(a,b) == Norm(<<a[1]*b[2], a[2]*b[1]>>)   \* b>0
MaxR(S) == CHOOSE a \in S : \A b \in S : Le(b,a)
MinR(S) == CHOOSE a \in S : \A b \in S : Le(a,b)

\* threshold rules for group g: cut c in -1..L-1 : predict 1 iff s > c ; flipped: predict 1 iff s <= c
Pred(c, fl, s) == IF fl THEN (IF s <= c THEN 1 ELSE 0) ELSE (IF s > c THEN 1 ELSE 0)
TP(g,c,fl) == Cnt({i \in Idx(g) : Yof(rows[i]) = 1 /\ Pred(c,fl,Sof(rows[i])) = 1})
FP(g,c,fl) == Cnt({i \in Idx(g) : Yof(rows[i]) = 0 /\ Pred(c,fl,Sof(rows[i])) = 1})
P(g) == Cnt({i \in Idx(g) : Yof(rows[i]) = 1})
Ng(g) == Cnt({i \in Idx(g) : Yof(rows[i]) = 0})
Metric(m, g, c, fl) ==
  LET tp == TP(g,c,fl) fp == FP(g,c,fl) p == P(g) n == Ng(g) IN
  CASE m = "sel" -> <<tp+fp, p+n>>
    [] m = "fpr" -> <<fp, n>>
    [] m = "fnr" -> <<p-tp, p>>
    [] m = "tpr" -> <<tp, p>>
    [] m = "tnr" -> <<n-fp, n>>
    [] m = "acc" -> <<tp + n - fp, p+n>>
    [] m = "bal" -> <<tp*n + (n-fp)*p, 2*p*n>>
Points(g, xm, ym, flip) == { <<Metric(xm,g,c,fl), Metric(ym,g,c,fl)>> : c \in -1..(L-1), fl \in (IF flip THEN {FALSE,TRUE} ELSE {FALSE}) }
\* upper hull value at x
Hull(pts, x) ==
  LET exact == { p[2] : p \in {q \in pts : Eq(q[1], x)} }
      interp == { Add(a[2], Mul(Sub(b[2],a[2]), Div(Sub(x,a[1]), Sub(b[1],a[1])))) :
                   <<a,b>> \in {pp \in pts \X pts : Lt(pp[1][1], x) /\ Lt(x, pp[2][1])} }
  IN MaxR(exact \cup interp)
Simple(xm, ym, flip, gs) ==
  LET n == Len(rows)
      Val(j) == LET x == <<j, gs>>
                    RECURSIVE S(_)
                    S(g) == IF g = 0 THEN <<0,1>> ELSE Add(S(g-1), Mul(<<Cnt(Idx(g)), n>>, Hull(Points(g,xm,ym,flip), x)))
                IN S(G)
  IN MaxR({Val(j) : j \in 0..gs})
Cons == {"sel","fpr","fnr","tpr","tnr"}
Objs == {"acc","bal","sel","tpr","tnr"}
Obs == [rows |-> [i \in 1..Len(rows) |-> <<Gof(rows[i]), Yof(rows[i]), Sof(rows[i])>>],
        opt |-> [c \in Cons |-> [o \in Objs |-> [f \in {FALSE, TRUE} |-> [gs \in GS |-> Simple(c,o,f,gs)]]]]]
EmitInv == (Emit /\ Valid) => PrintT(ToJson(Obs))
====
