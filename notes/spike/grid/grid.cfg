CONSTANTS MaxDim = 3 MaxSize = 30
INIT Init
NEXT Next
INVARIANT AllInv
CHECK_DEADLOCK FALSE
