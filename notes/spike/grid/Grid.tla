---- MODULE Grid ----
(* Transcription of fairlearn.reductions._grid_search._grid_generator._GridGenerator (integer part). *)
EXTENDS Integers, Sequences, FiniteSets, TLC, SequencesExt

CONSTANTS MaxDim, MaxSize

Abs(x) == IF x < 0 THEN -x ELSE x
\* accumulate_integer_grid(index, max_val): sequence (in generation order) of suffixes entry[index..dim]
RECURSIVE Acc(_,_,_,_,_)
Acc(index, maxv, dim, neg, force) ==
  IF index = dim + 1 THEN << <<>> >>
  ELSE LET vals == IF index = dim /\ force
                   THEN (IF neg[index] /\ maxv > 0 THEN <<-maxv, maxv>> ELSE <<maxv>>)
                   ELSE LET lo == IF neg[index] THEN -maxv ELSE 0 IN [k \in 1..(maxv - lo + 1) |-> lo + k - 1]
           RECURSIVE Cat(_)
           Cat(k) == IF k = 0 THEN <<>>
                     ELSE LET sub == Acc(index+1, maxv - Abs(vals[k]), dim, neg, force)
                          IN Cat(k-1) \o [j \in 1..Len(sub) |-> <<vals[k]>> \o sub[j]]
       IN Cat(Len(vals))
IntGrid(nu, dim, neg, force) == Acc(1, nu, dim, neg, force)
RECURSIVE NUnits(_,_,_,_,_)
NUnits(k, size, dim, neg, force) == IF Len(IntGrid(k, dim, neg, force)) >= size THEN k ELSE NUnits(k+1, size, dim, neg, force)
\* the code starts from a conservative lower bound; the loop result is the least k with enough points
Grid(size, dim, neg, force) == LET k == NUnits(0, size, dim, neg, force)
                                   g == IntGrid(k, dim, neg, force) IN [nu |-> k, pts |-> SubSeq(g, 1, size)]
L1(p) == LET RECURSIVE S(_) S(i) == IF i = 0 THEN 0 ELSE S(i-1) + Abs(p[i]) IN S(Len(p))

VARIABLES dim, neg, force, size
Init == /\ dim \in 1..MaxDim /\ force \in BOOLEAN /\ size \in 2..MaxSize
        /\ neg \in [1..dim -> BOOLEAN]
        /\ force => (dim >= 2 /\ \A d \in 1..dim : ~neg[d])     \* BoundedGroupLoss: one column per group, no negatives
Next == UNCHANGED <<dim, neg, force, size>>
G == Grid(size, dim, neg, force)
AllInv == LET g == G IN
  /\ \A i, j \in 1..Len(g.pts) : i # j => g.pts[i] # g.pts[j]
  /\ Len(g.pts) = size
  /\ \A i \in 1..Len(g.pts) : IF force THEN L1(g.pts[i]) = g.nu ELSE L1(g.pts[i]) <= g.nu
  /\ g.nu >= 1
  /\ \A i \in 1..Len(g.pts) : \A d \in 1..dim : (~neg[d]) => g.pts[i][d] >= 0
Distinct == \A i, j \in 1..Len(G.pts) : i # j => G.pts[i] # G.pts[j]
Count == Len(G.pts) = size
Norm == \A i \in 1..Len(G.pts) : IF force THEN L1(G.pts[i]) = G.nu ELSE L1(G.pts[i]) <= G.nu
NuPos == G.nu >= 1      \* size >= 2 => n_units >= 1, so the rescaling grid_limit / n_units is defined
Signs == \A i \in 1..Len(G.pts) : \A d \in 1..dim : (~neg[d]) => G.pts[i][d] >= 0
====
