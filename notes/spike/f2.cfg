CONSTANTS N = 4 G = 3 W = 2 Emit = TRUE
INIT Init
NEXT Next
INVARIANT EmitInv
INVARIANT DiffNonNeg
CHECK_DEADLOCK FALSE
