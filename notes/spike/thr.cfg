CONSTANTS N = 5 G = 2 L = 3 GS = {1,2,3,4} Emit = TRUE
INIT Init
NEXT Next
INVARIANT EmitInv
CHECK_DEADLOCK FALSE
